#!/usr/bin/env python3-vt
"""Validate MANIFEST.json and evidence/*.json against the schemas (tooling venv has jsonschema)."""
import glob, json, sys
import jsonschema
ok = True
man = json.load(open('/verif/MANIFEST.json'))
jsonschema.validate(man, json.load(open('/root/.vp/MANIFEST.schema.json')))
es = json.load(open('/root/.vp/EVIDENCE.schema.json'))
for f in sorted(glob.glob('/verif/evidence/*.json')):
    try:
        jsonschema.validate(json.load(open(f)), es)
    except Exception as ex:
        ok = False
        print("INVALID", f, str(ex)[:300])
print("manifest valid; evidence", "valid" if ok else "INVALID")
sys.exit(0 if ok else 1)
