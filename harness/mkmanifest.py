#!/venv/bin/python
"""Regenerates /verif/MANIFEST.json from harness/props/*.py (META dicts) - run after adding a check."""
import importlib
import json
import os
import sys

sys.path.insert(0, os.path.dirname(os.path.dirname(os.path.abspath(__file__))))
os.environ["VERIF_NO_REPO"] = "1"
ROOT = os.path.dirname(os.path.dirname(os.path.abspath(__file__)))
props = [json.loads(l) for l in open(os.path.join(ROOT, "properties.jsonl"))]
checks, na, engines = [], [], []
for p in props:
    pid = p["id"]
    path = os.path.join(ROOT, "harness", "props", pid.lower() + ".py")
    meta = None
    if os.path.exists(path):
        src = open(path).read()
        ns = {}
        if "META = " in src:
            i = src.index("META = ")
            j = src.index("\n}\n", i) + 3
            exec(src[i:j], ns)
            meta = ns["META"]
    if not meta:
        na.append({"property_id": pid, "reason": "check not built yet (work in progress; planned in DESIGN.md section 3)"})
        continue
    checks.append({
        "property_id": pid,
        "quick_cmd": "./check %s --tier quick" % pid,
        "thorough_cmd": "./check %s --tier thorough" % pid,
        "evidence_file": "evidence/%s.json" % pid,
        "replay_cmd_template": "./check %s --replay {path}" % pid,
        "engine": "tlc",
        "level_claimed": {"category": "model_checking", "text": meta["level_text"], "design_ref": meta.get("design_ref", "DESIGN.md section 3 " + pid)},
        "level_note": meta["level_note"],
        "technique": meta["technique"],
    })
man = {
    "version": 1,
    "setup_cmd": "./setup.sh",
    "hooks": {"guard": "BOLTONS_VERIF", "enable": "no source hooks: checks observe the public API (and interpose os/socket/threading from outside the package)",
              "baseline_off_cmd": "cd /repo && /venv/bin/python -m pytest -ra -q -p no:cacheprovider --timeout=900 --continue-on-collection-errors",
              "source_commits": [], "add_only": True},
    "engines": [{"name": "tlc", "path": "/opt/veriftools/tla/tla2tools.jar", "serves_properties": [c["property_id"] for c in checks],
                 "kind_free_text": "TLC 1.8 explicit-state model checker on TLA+ specs under specs/; Python harness under harness/ binds specs to /repo (graph replay + trace validation)"}],
    "checks": checks,
    "not_applicable": na,
    "notes": "See DESIGN.md. Exit 2 = machinery failure. VERIF_REPO=<dir> points the checks at another working tree (used for seeded changes).",
}
json.dump(man, open(os.path.join(ROOT, "MANIFEST.json"), "w"), indent=1)
print("checks:", [c["property_id"] for c in checks], "n/a:", len(na))
