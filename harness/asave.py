"""Scenario runner shared by C04 and C05: one atomic_save attempt under the interposer."""
import errno
import os
import shutil
import stat
import tempfile

from harness import core, fsio

OLD = b"OLD-CONTENT\n"
STALE = b"STALE-PART\n"


class FalsyError(Exception):
    """an exception instance that is falsy (a result-carrying error sized by the rows processed so far)"""

    def __len__(self):
        return 0


class BodyError(Exception):
    pass


def read_any(path, st):
    """content of a file whatever its mode (a save with file_perms=0 leaves an unreadable file unless we are root)"""
    try:
        with fsio.REAL_IO_OPEN(path, "rb") as f:
            return f.read()
    except PermissionError:
        mode = stat.S_IMODE(st.st_mode)
        os.chmod(path, mode | 0o400)
        try:
            with fsio.REAL_IO_OPEN(path, "rb") as f:
                return f.read()
        finally:
            os.chmod(path, mode)


def chunks_for(body, text):
    if body == "none":
        cs = []
    elif body == "one":
        cs = [b"hello world\n"]
    elif body == "three":
        cs = [b"alpha\n", b"beta \xc3\xa9\n", b"gamma\n"]
    elif body == "big":
        cs = [b"x" * 70000, b"tail\n"]
    elif body == "many":
        cs = [b"%04d\n" % i for i in range(40)]
    else:
        raise ValueError(body)
    return [c.decode("utf-8") for c in cs] if text else cs


def run_killed(cfg, kill_at):
    """Really die: fork, SIGKILL the child right before (or after) its kill_at-th file-system event, and look at
    the directory from the parent. Returns the parent's view, or None if the run had fewer events."""
    import signal
    d = os.path.realpath(tempfile.mkdtemp(prefix="asavek-"))
    try:
        pid = os.fork()
        if pid == 0:
            try:
                run(cfg, None, workdir=d, kill_at=kill_at)
            finally:
                os._exit(0)
        _, status = os.waitpid(pid, 0)
        killed = os.WIFSIGNALED(status) and os.WTERMSIG(status) == signal.SIGKILL
        dest = os.path.join(d, "dest.txt")
        chunks = chunks_for(cfg["body"], cfg["text_mode"])
        new = b"".join(c.encode("utf-8") if isinstance(c, str) else c for c in chunks)
        try:
            with open(dest, "rb") as f:
                data = f.read()
            st = "new" if data == new and data != OLD else "old" if data == OLD else "other"
        except FileNotFoundError:
            st = "absent"
        return {"killed": killed, "dest": st}
    finally:
        shutil.rmtree(d, ignore_errors=True)


def run(cfg, faults=None, keep_events=True, workdir=None, kill_at=None):
    """cfg: overwrite, overwrite_part, rm_part_on_exc, text_mode, perms (-1 = not given; 0 is the explicit mode 0), umask, dest_present, part_present,
    body, raise_at (-1 none), dest_appears."""
    from boltons import fileutils
    d = workdir or os.path.realpath(tempfile.mkdtemp(prefix="asave-"))
    dest = os.path.join(d, "dest.txt")
    part = dest + ".part"
    other_dir = None
    if cfg.get("part_elsewhere"):
        # part_file= given as an absolute path in a directory on ANOTHER file system: the publishing rename cannot work
        # (EXDEV) and must not be replaced by a copy
        try:
            other_dir = os.path.realpath(tempfile.mkdtemp(prefix="asave-part-", dir="/dev/shm"))
            if os.stat(other_dir).st_dev == os.stat(d).st_dev:
                raise OSError("same device")
            part = os.path.join(other_dir, "dest.txt.part")
        except OSError:
            if other_dir:
                shutil.rmtree(other_dir, ignore_errors=True)
            other_dir = None
            cfg = dict(cfg, part_elsewhere=False)
    old_umask = os.umask(cfg["umask"])
    try:
        if cfg["dest_present"]:
            with open(dest, "wb") as f:
                f.write(OLD)
            os.chmod(dest, cfg.get("dest_mode", 0o640))
        if cfg["part_present"] == "link" and cfg["dest_present"]:
            # what a crash between link() and unlink() of an earlier overwrite=False save leaves behind:
            # the part name is a second hard link to the destination's inode
            os.link(dest, part)
        elif cfg["part_present"]:
            with open(part, "wb") as f:
                f.write(STALE)
            os.chmod(part, 0o604)      # a mode no rule of the property produces: reuse of this inode shows in the result
        chunks = chunks_for(cfg["body"], cfg["text_mode"])
        new = b"".join(c.encode("utf-8") if isinstance(c, str) else c for c in chunks)

        dest_ino = {}
        if cfg["dest_present"]:
            dest_ino["ino"] = fsio.REAL_LSTAT(dest).st_ino

        def classify():
            out = {}
            try:
                st = fsio.REAL_LSTAT(dest)
                data = read_any(dest, st)
                out["dest"] = {"st": "new" if data == new and data != OLD else "old" if data == OLD else "other",
                               "mode": stat.S_IMODE(st.st_mode)}
            except FileNotFoundError:
                out["dest"] = {"st": "absent", "mode": 0}
            try:
                st = fsio.REAL_LSTAT(part)
                data = read_any(part, st)
                leftover_link = cfg["part_present"] == "link" and st.st_ino == dest_ino.get("ino")
                out["part"] = {"st": "stale" if data == STALE or leftover_link else "file", "size": len(data)}
            except FileNotFoundError:
                out["part"] = {"st": "absent", "size": 0}
            return out
        kw = {"overwrite": cfg["overwrite"], "overwrite_part": cfg["overwrite_part"], "rm_part_on_exc": cfg["rm_part_on_exc"],
              "text_mode": cfg["text_mode"]}
        if cfg["perms"] >= 0:
            kw["file_perms"] = cfg["perms"]
        if other_dir:
            kw["part_file"] = part
        if cfg.get("buffering") is not None:
            kw["buffering"] = cfg["buffering"]      # 0: unbuffered (binary), 1: line-buffered (text), small: spills mid-body
        warm, extra_fds = None, []
        if cfg.get("warm_saver") and cfg["dest_present"] and cfg["overwrite"] and not cfg["part_present"]:
            # a long-lived AtomicSaver that has already completed one save of this destination (unrecorded), after which
            # the process opened a few more files: the recorded save is this object's second one
            warm = fileutils.atomic_save(dest, **kw)
            with warm as f:
                f.write(OLD.decode("utf-8") if cfg["text_mode"] else OLD)
            # (another mode than at the first save: whatever the saver remembers of the file it replaced then is stale)
            os.chmod(dest, cfg.get("dest_mode", 0o640) ^ 0o044)
            dest_ino["ino"] = fsio.REAL_LSTAT(dest).st_ino
            extra_fds = [os.open(os.path.join(d, "bystander%d.dat" % j), os.O_RDWR | os.O_CREAT, 0o600) for j in range(3)]
        init = classify()
        raised, body_raised = "", False
        ip = fsio.Interposer(d, classify, faults)
        if other_dir:
            ip.more_dirs = [other_dir]
        ip.kill_at = kill_at
        saver = warm if warm is not None else fileutils.atomic_save(dest, **kw)
        # what tears the with-block down: an ordinary exception, or a BaseException that is not an Exception
        # (Ctrl-C, sys.exit() in the body, a generator holding the block being closed)
        body_exc = {"KeyboardInterrupt": KeyboardInterrupt, "SystemExit": SystemExit, "GeneratorExit": GeneratorExit, "FalsyError": FalsyError}.get(
            cfg.get("raise_kind", "Exception"), BodyError)
        class Manual:
            """the documented non-context-manager use: setup(), write to part_file, then __exit__(None, None, None)"""

            def __init__(self, sv):
                self.sv = sv

            def __enter__(self):
                self.sv.setup()
                return self.sv.part_file

            def __exit__(self, et, ev, tb):
                return self.sv.__exit__(et, ev, tb)
        with ip:
            try:
                with (Manual(saver) if cfg.get("manual_protocol") else saver) as f:
                    for i, c in enumerate(chunks):
                        if cfg["raise_at"] == i:
                            body_raised = True
                            raise body_exc("body")
                        f.write(c)
                    if cfg["raise_at"] >= len(chunks):
                        body_raised = True
                        raise body_exc("body")
                    if cfg["dest_appears"]:
                        def appear():
                            with fsio.REAL_IO_OPEN(dest, "wb") as g:
                                g.write(OLD)
                            fsio.REAL["chmod"](dest, cfg.get("dest_mode", 0o640))
                        ip.event("env_dest_appears", dest, appear)
            except BaseException as ex:
                raised = core.exc_name(ex)
        last = classify()
        retried, retry_ok, retry_mode, retry_same = False, False, 0, bool(cfg.get("retry_same_object"))
        if raised:
            retried = True
            try:
                # an immediate retry: with a fresh saver, or (as a caller holding on to the AtomicSaver would) the same object
                with (saver if retry_same else fileutils.atomic_save(dest, **kw)) as f:
                    for c in chunks:
                        f.write(c)
                after = classify()
                retry_ok = after["dest"]["st"] == "new" or (new == OLD)
                retry_mode = after["dest"]["mode"]
            except BaseException:
                retry_ok = False
        tr = {"cfg": {"overwrite": cfg["overwrite"], "overwrite_part": cfg["overwrite_part"], "rm_part_on_exc": cfg["rm_part_on_exc"],
                      "perms": cfg["perms"], "umask_default": 0o666 & ~cfg["umask"], "part_elsewhere": bool(cfg.get("part_elsewhere"))},
              "init": init, "total": len(new), "ev": ip.events + [{"name": "end", "target": "", "faulted": False, "n": 0,
                                                                    "dest": last["dest"], "part": last["part"]}],
              "raised": bool(raised), "raised_name": raised, "body_raised": body_raised, "retried": retried, "retry_ok": retry_ok, "retry_mode": retry_mode, "retry_same_object": retry_same,
              "scenario": cfg, "faults": sorted((faults or {}).items())}
        return tr
    finally:
        os.umask(old_umask)
        if other_dir:
            shutil.rmtree(other_dir, ignore_errors=True)
        for fd_ in locals().get("extra_fds", []):
            try:
                os.close(fd_)
            except OSError:
                pass
        if workdir is None:
            shutil.rmtree(d, ignore_errors=True)
