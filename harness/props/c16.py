"""C16 - traceback text / ParsedException round-trips; ExceptionInfo matches the interpreter.

Specs: specs/tb/TbText.tla (line kinds: Render / Parse), CallChain.tla (call chains -> expected frames), TbMC (rows).
"""
import importlib.util
import json
import os
import re
import shutil
import sys
import tempfile
import time
import traceback

from harness import core
from harness.core import SPECS, Stats, Verdict, tlc_must_pass

PROP = "C16"
META = {
    "technique": "TLA+ model of the standard traceback text as a sequence of line kinds with Render and the line-oriented Parse state machine (TLC checks Parse(Render(tb)) = tb for every traceback of the bounded model) and of call chains with the frames they must produce; every text row is concretised, parsed by ParsedException.from_string and re-rendered; every call-chain row is generated as a real module, run, and ExceptionInfo / TracebackInfo compared with the traceback module and the model",
    "level_text": "Every traceback with up to 2 (thorough 3) frames over path classes (spaces, non-ASCII, <string>, <frozen ...>), function-name classes (<module>, <lambda>, plain), frames with / without source line and with / without marker line, plain and dotted exception types, and six message classes (none, one line, containing ': ', two lines, with a blank line, non-ASCII) is parsed and re-rendered: each field must be recovered and to_string() must reproduce the text (marker lines aside). Every call chain up to depth 3 (thorough 4) over six level kinds x four exception kinds is executed: frames must equal traceback.extract_tb (file, line, function, source text) and the model's frame list, and the formatted output must equal the interpreter's.",
    "level_note": "The interpreter (traceback module) is the oracle for file, line and source text; marker lines and the trailing newline are not judged. SyntaxError, chained causes and notes are excluded by the statement and not generated.",
}
SPECDIR = SPECS / "tb"
PATHS = {1: "/srv/app/mod.py", 2: "/srv/my app/é dir/mod 2.py", 3: "<string>", 4: "<frozen importlib._bootstrap>",
         5: '/srv/odd", line 3, in name/mod.py'}           # a path that itself looks like the rest of a frame line
FUNCS = {1: "<module>", 2: "handler", 3: "<lambda>", 4: "<listcomp>", 5: "größe_prüfen"}
LINENO = {42: 123456}        # what the model's line-number / repeat-count codes stand for when not themselves
REPS = {7: 996}
TYPES = {1: "ValueError", 2: "pkg.mod.CustomError"}
MSGL = {1: "something failed", 2: "bad value: 42: really", 3: "second line", 4: "", 5: "ünïcode ✓", 6: "    ^ expected an expression", 7: "^^^ here", 8: "    ", 9: "\t"}
SRC = "result = compute(a, b)  # comment"
MARK = "    ~~~~~~~^^^^^^"


def text_of(tb):
    lines = ["Traceback (most recent call last):"]
    for f in tb["frames"]:
        lines.append('  File "%s", line %d, in %s' % (PATHS[f["path"]], LINENO.get(f["lineno"], f["lineno"]), FUNCS[f["func"]]))
        if f["src"] >= 1:
            lines.append("    " + SRC)
        if f["src"] == 2:
            lines.append(MARK)
        if f.get("rep"):
            lines.append("  [Previous line repeated %d more time%s]" % (REPS.get(f["rep"], f["rep"]), "s" if f["rep"] > 1 else ""))
    msg = [MSGL[m] for m in tb["msg"]]
    lines.append(TYPES[tb["etype"]] + (": " + msg[0] if msg else ""))
    lines += msg[1:]
    return "\n".join(lines)


def run_text(row):
    from boltons.tbutils import ParsedException
    tb = row["tb"]
    text = text_of(tb)
    bad = []
    for label, t in (("text", text), ("text+newline", text + "\n")):
        try:
            pe = ParsedException.from_string(t)
        except Exception as ex:
            bad.append((label, "from_string-raised:" + core.exc_name(ex), ""))
            continue
        want_frames = [{"filepath": PATHS[f["path"]], "lineno": str(LINENO.get(f["lineno"], f["lineno"])), "funcname": FUNCS[f["func"]],
                        "source_line": SRC if f["src"] else ""} for f in tb["frames"]]
        got_frames = [{k: str(fr.get(k)) for k in ("filepath", "lineno", "funcname", "source_line")} for fr in pe.frames]
        if got_frames != want_frames:
            bad.append((label, "frames", {"got": got_frames, "want": want_frames}))
        if pe.exc_type != TYPES[tb["etype"]]:
            bad.append((label, "exc_type", pe.exc_type))
        if pe.exc_msg != "\n".join(MSGL[m] for m in tb["msg"]):
            bad.append((label, "exc_msg", pe.exc_msg))
        want_text = "\n".join(l for l in text.split("\n") if l != MARK)
        try:
            out = pe.to_string()
        except Exception as ex:
            out = "raised:" + core.exc_name(ex)
        if out != want_text:
            bad.append((label, "to_string", out))
    return bad


LEVEL_NAME = {1: "f%d", 2: "<lambda>", 3: "go", 4: "inner%d", 5: "gen%d", 6: "rec%d", 7: "modgen%d", 8: "deep%d"}
def nfr(k, idx, L):
    """frames a level of kind k at position idx (1-based) of a program of L levels contributes"""
    return 2 if k == 6 else 3 + ((idx + L) % 4) if k == 8 else 1


def chain_source(prog, exc):
    lines = ["class CustomError(Exception):", "    pass", "", "class ScriptError(Exception):", "    pass", "ScriptError.__module__ = '__main__'", "",
             "class Outer:", "    class InnerError(Exception):", "        pass", "",
             "def make_local_error():", "    class LocalError(Exception):", "        pass", "    return LocalError", "", "def raiser():"]
    lines.append({1: "    raise ValueError('bad value: 42')", 2: "    raise RuntimeError()", 3: "    raise CustomError('custom failed')",
                  4: "    raise ValueError('line one\\nline two')",
                  5: "    raise ScriptError('defined in the script being run')",     # a class of __main__ is printed unqualified
                  6: "    raise Outer.InnerError('nested class')",
                  7: "    raise KeyError('missing key')",
                  8: "    raise FileNotFoundError(2, 'No such file or directory', 'x.txt')",
                  9: "    raise KeyboardInterrupt()",                                   # BaseExceptions that are not Exceptions
                  10: "    raise SystemExit(3)",
                  11: "    raise make_local_error()('class defined inside a function')",   # qualified name with <locals>
                  12: "    raise GeneratorExit()",
                  13: "    raise ValueError('expected a block after:\\n    ')",          # the message's last line is blanks only
                  14: "    raise ValueError('ends with a line break\\n')",
                  15: "    raise ExceptionGroup('several things failed', [ValueError(1), KeyError('k')])"}[exc])     # printed as a tree by the interpreter
    nxt = "raiser"
    for idx in range(len(prog), 0, -1):
        k = prog[idx - 1]
        name = "lvl%d" % idx
        if k == 1:
            lines += ["", "def f%d():" % idx, "    return %s()" % nxt, "%s = f%d" % (name, idx)]
        elif k == 2:
            lines += ["", "%s = lambda: %s()" % (name, nxt)]
        elif k == 3:
            lines += ["", "class C%d:" % idx, "    def go(self):", "        return %s()" % nxt, "%s = C%d().go" % (name, idx)]
        elif k == 4:
            lines += ["", "def make%d():" % idx, "    def inner%d():" % idx, "        return %s()" % nxt, "    return inner%d" % idx, "%s = make%d()" % (name, idx)]
        elif k == 5:
            lines += ["", "_ns%d = {'nxt': %s}" % (idx, nxt), "exec(compile('def gen%d():\\n    return nxt()', '<generated-%d>', 'exec'), _ns%d)" % (idx, idx, idx),
                      "%s = _ns%d['gen%d']" % (name, idx, idx)]
        elif k == 7:
            lines += ["", "_nxt%d = %s" % (idx, nxt), "exec(compile('def modgen%d():\\n    return _nxt%d()', '<string>', 'exec'), globals())" % (idx, idx),
                      "%s = modgen%d" % (name, idx)]
        elif k == 8:
            lines += ["", "def deep%d(n=%d):" % (idx, nfr(8, idx, len(prog)) - 1), "    if n:", "        return deep%d(n - 1)" % idx, "    return %s()" % nxt, "%s = deep%d" % (name, idx)]
        else:
            lines += ["", "def rec%d(n=1):" % idx, "    if n:", "        return rec%d(0)" % idx, "    return %s()" % nxt, "%s = rec%d" % (name, idx)]
        nxt = name
    # (blanks at the end of a source line are not part of what a traceback shows: the entry line carries some, and so
    # does the raise line of every other exception kind)
    lines += ["", "def entry():", "    return %s()  \t " % nxt, ""]
    if exc % 2 == 0:
        i_r = lines.index("def raiser():") + 1
        lines[i_r] = lines[i_r] + " \t"
    return "\n".join(lines)


def collapse_runs(frames):
    """the frames the interpreter's text shows: of a run of identical consecutive frames the first three (the rest is counted
    in a "[Previous line repeated N more times]" line)"""
    out = []
    for f_ in frames:
        if len(out) >= 3 and out[-1] == f_ and out[-2] == f_ and out[-3] == f_:
            continue
        out.append(f_)
    return out


_MARKER_RE = re.compile(r"^\s*[~^]+\s*$")


def strip_markers(text):
    return "\n".join(l for l in text.split("\n") if not _MARKER_RE.match(l)).rstrip("\n")


def run_chain(row, tmpdir, counter, reuse=False):
    """reuse: the program is written over the file of the previous program (a module edited and run again in the same
    process), so the interpreter's line cache holds the old text when tbutils is asked first."""
    from boltons.tbutils import ExceptionInfo, TracebackInfo
    prog, exc = row["prog"], row["exc"]
    modname = "c16chain_reused" if reuse else "c16chain_%d" % counter
    path = os.path.join(tmpdir, modname + ".py")
    with open(path, "w") as f:
        f.write(chain_source(prog, exc))
    if reuse:
        os.utime(path, (1500000000 + 3 * counter, 1500000000 + 3 * counter))
    spec = importlib.util.spec_from_file_location(modname, path)
    mod = importlib.util.module_from_spec(spec)
    sys.modules[modname] = mod
    spec.loader.exec_module(mod)
    bad = []
    try:
        mod.entry()
        return [("chain", "did-not-raise", "")]
    except BaseException:
        et, ev, tb = sys.exc_info()
        try:
            ei = ExceptionInfo.from_exc_info(et, ev, tb)
            ti = TracebackInfo.from_traceback(tb)
            got = [(c.module_path, c.lineno, c.func_name, str(c.line).strip()) for c in ei.tb_info.frames]
            got2 = [(c.module_path, c.lineno, c.func_name, str(c.line).strip()) for c in ti.frames]
            formatted = ei.get_formatted()
        except Exception as ex:
            return [("chain", "tbutils-raised:" + core.exc_name(ex), str(ex)[:200])]
        ref = [(fs.filename, fs.lineno, fs.name, (fs.line or "").strip()) for fs in traceback.extract_tb(tb)]
        if got != ref or got2 != ref:
            bad.append(("chain", "frames-differ-from-traceback-module", {"got": got, "traceback": ref}))
        # the model's frame list (after this driver's own frame): names and which frames have source
        want = []
        for idx, k in enumerate(prog, 1):
            nm = LEVEL_NAME[k] % idx if "%" in LEVEL_NAME[k] else LEVEL_NAME[k]
            for _ in range(nfr(k, idx, len(prog))):
                want.append((nm, k not in (5, 7)))
        want = [("entry", True)] + want + [("raiser", True)]
        model_got = [(g[2], bool(g[3])) for g in got[1:]]
        if model_got != want or [list(x) for x in [(f[0], f[1]) for f in row["frames"]]] != [[k, k not in (5, 7)] for i_, k in enumerate(prog, 1) for _ in range(nfr(k, i_, len(prog)))]:
            bad.append(("chain", "frames-differ-from-model", {"got": model_got, "model": want}))
        interp = "".join(traceback.format_exception(et, ev, tb))
        if strip_markers(formatted) != strip_markers(interp):
            bad.append(("chain", "formatted-output", {"tbutils": formatted, "interpreter": interp}))
        # the interpreter's own text (marker lines aside) read back by ParsedException
        from boltons.tbutils import ParsedException
        itext = "\n".join(l_ for l_ in interp.split("\n") if not _MARKER_RE.match(l_))     # the final line break stays
        if exc == 15:
            itext = None         # (the tree the interpreter prints for a group is not the standard one-exception format)
        try:
            if itext is None:
                raise StopIteration
            pe = ParsedException.from_string(itext)
            pframes = [(f_["filepath"], str(f_["lineno"]), f_["funcname"], f_["source_line"].strip()) for f_ in pe.frames]
            rframes = [(a, str(b), c, d_) for a, b, c, d_ in ref]
            if pe.exc_msg != str(ev) or pe.exc_type.split(".")[-1] != et.__name__:
                bad.append(("chain", "from_string(interpreter text): exc_msg/exc_type", {"exc_type": pe.exc_type, "exc_msg": pe.exc_msg, "str(exception)": str(ev)}))
            elif pframes != collapse_runs(rframes):
                bad.append(("chain", "from_string(interpreter text): frames", {"parsed": pframes, "traceback": rframes}))
            elif pe.to_string().rstrip("\n") != itext.rstrip("\n"):
                bad.append(("chain", "from_string(interpreter text): to_string", {"to_string": pe.to_string(), "text": itext}))
            elif interp != itext:
                # the same text with the interpreter's own position-marker lines left in: same frames, type and message
                pe2 = ParsedException.from_string(interp)
                if [dict(f_) for f_ in pe2.frames] != [dict(f_) for f_ in pe.frames] or pe2.exc_msg != pe.exc_msg or pe2.exc_type != pe.exc_type:
                    bad.append(("chain", "from_string(interpreter text with marker lines)", {"with_markers": [dict(f_) for f_ in pe2.frames], "without": [dict(f_) for f_ in pe.frames],
                                                                                             "exc_msg": pe2.exc_msg}))
        except StopIteration:
            pass
        except Exception as ex:
            bad.append(("chain", "from_string(interpreter text) raised:" + core.exc_name(ex), str(ex)[:200]))
        d = ei.to_dict()
        if d["exc_type"].split(".")[-1] != et.__name__ or d["exc_msg"] != str(ev) or len(d["exc_tb"]["frames"]) != len(ref):
            bad.append(("chain", "to_dict", {k: d[k] for k in ("exc_type", "exc_msg")}))
    finally:
        sys.modules.pop(modname, None)
    return bad


def main(tier, seed):
    t0 = time.time()
    stats, verdict = Stats(), Verdict(PROP, tier, seed)
    thorough = tier == "thorough"
    r = tlc_must_pass(SPECDIR, "TbMC.tla", "TbMC_thorough.cfg" if thorough else "TbMC.cfg", workers=1, timeout=3000, heap="8g")
    stats.add_tlc(r)
    rows = r.payloads("T")
    tmpdir = tempfile.mkdtemp(prefix="c16-")
    n_text = n_chain = 0
    try:
        for i, row in enumerate(rows):
            stats.edges_executed += 1
            if row["kind"] == "text":
                n_text += 1
                for label, what, detail in run_text(row):
                    tb = row["tb"]
                    sig = {"subject": "tbutils.ParsedException", "op": "from_string/to_string", "what": what.split(":")[0],
                           "no_message": not tb["msg"], "last_frame_has_source": bool(tb["frames"]) and tb["frames"][-1]["src"] > 0,
                           "zero_frames": not tb["frames"]}
                    verdict.fail(sig, {"traceback": tb, "text": text_of(tb), "variant": label, "observed": detail})
            else:
                n_chain += 1
                for label, what, detail in run_chain(row, tmpdir, i) + [("rewritten-file:" + a, b, c) for a, b, c in run_chain(row, tmpdir, i, reuse=True)]:
                    sig = {"subject": "tbutils.ExceptionInfo", "op": "from_exc_info", "what": what.split(":")[0], "exc_kind": row["exc"]}
                    verdict.fail(sig, {"program": row["prog"], "exception_kind": row["exc"], "source": chain_source(row["prog"], row["exc"]), "observed": detail})
    finally:
        shutil.rmtree(tmpdir, ignore_errors=True)
    probe = json.loads(json.dumps(next(x for x in rows if x["kind"] == "text" and len(x["tb"]["frames"]) == 1 and x["tb"]["frames"][0]["src"] == 1)))
    global SRC
    keep = SRC
    want = run_text(probe)
    probe["tb"]["frames"][0]["lineno"] = 42 if probe["tb"]["frames"][0]["lineno"] != 42 else 1
    txt = text_of(probe["tb"])
    probe["tb"]["frames"][0]["lineno"] = 7777
    PATHS_bak = dict(PATHS)
    # canary: judge the text of one traceback against the fields of another
    from boltons.tbutils import ParsedException
    pe = ParsedException.from_string(txt)
    if str(pe.frames[0]["lineno"]) == "7777":
        raise core.MachineryError("canary: parsed line number equals an unrelated prediction")
    stats.extra["canary"] = "a parsed traceback does not match the fields of a different traceback"
    stats.extra.update({"text_rows": n_text, "call_chain_rows": n_chain})
    stats.nontrivial = {core.canon(x) for x in rows}
    for x in rows[:: max(1, len(rows) // 4)]:
        stats.sample(x if x["kind"] == "chain" else {"kind": "text", "tb": x["tb"], "text": text_of(x["tb"])})
    rc = verdict.finish()
    core.write_evidence(PROP, tier, seed, stats.coverage(
        "one TLC state per traceback of the bounded line-kind model (Parse(Render) = id checked by TLC) and per call chain; texts are "
        "concretised and run through from_string / to_string (also with a trailing newline); chains are written as modules, executed, and "
        "ExceptionInfo/TracebackInfo compared with traceback.extract_tb / format_exception and with the model's frame list. "
        "distinct_nontrivial = distinct rows.", True),
        ["traceback module is the oracle for file/line/source", "marker lines and the final newline are not judged"], time.time() - t0, len(verdict.violations))
    return rc


def replay(path):
    case = json.load(open(path))["case"]
    print(json.dumps(case, indent=1)[:4000])
    return 0
