"""C15 - backoff sequences are monotone, capped at stop, right length; jitter bounded.

Spec: specs/backoff/Backoff.tla (exact rationals), BackoffMC (parameter grid rows + laws).
"""
import json
import time
from fractions import Fraction
from decimal import Decimal

from harness import core
from harness.core import SPECS, Stats, Verdict, tlc_must_pass

PROP = "C15"
META = {
    "technique": "TLA+ reference of the backoff sequence over exact rationals with the property's laws checked by TLC on every point of a parameter grid (incl. exact powers, start 0, stop < 1, invalid points, jitter with scripted draws); every row replayed on backoff and backoff_iter with the random source scripted",
    "level_text": "TLC checks first value, monotonicity, exact growth by factor until the cap, cap at stop, length, 'default count ends at stop', and the jitter interval on the rational reference for the whole grid; the real functions are run on the same points (all grid numbers are exactly representable floats, results compared exactly as Fractions) with random.random replaced by the scripted draw; invalid points must raise ValueError before yielding.",
    "level_note": "The grid is finite; float rounding of the logarithm is exercised at exact powers (1->1000 by 10, 1->125 by 5, 1/4->1024 by 2, ...) but not for arbitrary reals. For the default count only 'ends at stop (after growing exactly)' is required; trailing repeats of stop are accepted. factor = 1 with default count is outside the statement.",
}
SPECDIR = SPECS / "backoff"


def q(p):
    return Fraction(p[0], p[1])


class Draw:
    """Stands in for the random module inside iterutils: random() replays a script of draws in [0, 1), cyclically."""

    def __init__(self, *rs):
        self.rs, self.i = [float(r) for r in rs], 0

    def random(self):
        r = self.rs[self.i % len(self.rs)]
        self.i += 1
        return r

    def uniform(self, a, b):
        return a + (b - a) * self.random()


def run_row(row):
    from boltons import iterutils as it
    import itertools
    import random as realrandom
    start, stop, factor = float(q(row["start"])), float(q(row["stop"])), float(q(row["factor"]))
    kind = row["kind"]
    exp = [q(x) for x in row["out"]]
    bad = []

    def conv(vals):
        return [Fraction(v) for v in vals]
    try:
        if kind in ("counted", "default"):
            cnt = None if kind == "default" else row["count"]
            for label, thunk in (("backoff", lambda: it.backoff(start, stop, count=cnt, factor=factor)),
                                 ("backoff_iter", lambda: list(it.backoff_iter(start, stop, count=cnt, factor=factor))),
                                 ("backoff(int args)", (lambda: it.backoff(int(start), int(stop), count=cnt, factor=factor))
                                  if start == int(start) and stop == int(stop) else None)):
                if thunk is None:
                    continue
                try:
                    handed = thunk()
                    got = conv(handed)
                    # the caller owns the list it was handed (a retry loop uses its delays up): an equal call made
                    # afterwards must still give the full sequence
                    if isinstance(handed, list) and handed:
                        handed.pop(0)
                        handed.reverse()
                        handed.append(-1.0)
                        again = conv(thunk())
                        if again != got:
                            bad.append((label + " (second call after the caller changed the first result)", [str(x) for x in again]))
                except Exception as ex:
                    bad.append((label, "raised:" + core.exc_name(ex)))
                    continue
                if kind == "counted":
                    if got != exp:
                        bad.append((label, [str(x) for x in got]))
                else:
                    # ends at stop, exact growth before; trailing repeats of stop are not judged
                    ok = len(got) >= len(exp) and got[:len(exp)] == exp and all(x == q(row["stop"]) for x in got[len(exp):]) \
                        and len(got) <= len(exp) + 2
                    if not ok:
                        bad.append((label, [str(x) for x in got]))
            if kind == "counted" and row["count"] > 0:
                try:
                    got = conv(itertools.islice(it.backoff_iter(start, stop, count="repeat", factor=factor), row["count"] + 3))
                    full = exp + [exp[-1] if exp[-1] == q(row["stop"]) else None] * 0
                    if got[:len(exp)] != exp:
                        bad.append(("backoff_iter(repeat)", [str(x) for x in got]))
                except Exception as ex:
                    bad.append(("backoff_iter(repeat)", "raised:" + core.exc_name(ex)))
        elif kind == "jitter":
            base, other = [q(x) for x in row["base"]], [q(x) for x in row["other"]]
            r0 = q(row["draw"])
            hi, lo = Fraction(1023, 1024), Fraction(0)
            scripts = [[r0], [hi, lo], [lo, hi], [hi, hi, lo, lo], [r0, hi, lo, Fraction(1, 2)], [hi, Fraction(3, 4), lo, lo, hi, lo, lo]]
            for script in scripts:
                for label, fn in (("backoff(jitter)", it.backoff), ("backoff_iter(jitter)", lambda *a, **k: itertools.islice(it.backoff_iter(*a, **k), row["count"]))):
                    it.random = Draw(*script)
                    try:
                        got = conv(fn(start, stop, count=row["count"], factor=factor, jitter=float(q(row["jit"]))))
                    except Exception as ex:
                        bad.append((label, "raised:" + core.exc_name(ex)))
                        continue
                    finally:
                        it.random = realrandom
                    if len(got) != len(base) or any(not (min(b, o) <= g <= max(b, o)) for g, b, o in zip(got, base, other)):
                        bad.append((label, {"draws": [str(x) for x in script], "got": [str(x) for x in got], "unjittered": [str(x) for x in base],
                                            "other_end": [str(x) for x in other]}))
                        break
        else:
            kw = {"jitter": float(q(row["jit"]))} if kind == "invalid_jitter" else {}
            for label, fn in (("backoff", it.backoff), ("backoff_iter", it.backoff_iter)):
                try:
                    g = fn(start, stop, count=row["count"], factor=factor, **kw)
                    first = next(iter(g), "empty")
                    bad.append((label, "no ValueError; first value %r" % (first,)))
                except ValueError:
                    pass
                except Exception as ex:
                    bad.append((label, "raised:" + core.exc_name(ex)))
    except Exception as ex:
        bad.append(("harness", "raised:" + core.exc_name(ex)))
    return bad


def float_laws(seed, n):
    """The laws of Backoff.tla (LawSeq, default-count law, jitter interval) evaluated in float arithmetic on parameters the
    rational grid cannot hold: not exactly representable values, stops one ulp around start*factor**k, long sequences,
    parameters a hair outside the valid ranges, every count / jitter form, the real random source. 'Grows by exactly
    factor' is read as the float product prev*factor (the statement quantifies over real parameters; the code computes in
    floats)."""
    import math
    import itertools
    import random as realrandom
    from boltons import iterutils as it
    rng = realrandom.Random(seed)
    bad = []

    def laws(vals, start, stop, factor, count, default):
        if not vals:
            return None if count == 0 else "empty"
        if vals[0] != start:
            return "first value is not start"
        for i in range(1, len(vals)):
            prev, cur = vals[i - 1], vals[i]
            want = min(1.0, stop) if prev == 0 else (min(prev * factor, stop) if prev < stop else stop)
            if cur != want:
                return "value %d is %r, expected %r" % (i, cur, want)
        if max(vals) > stop:
            return "exceeds stop"
        if default and (vals[-1] != stop or (len(vals) > 1 and vals[-2] == stop and not (start == stop))):
            return "default count does not end at stop exactly once"
        if not default and count is not None and len(vals) != count:
            return "length %d for count %d" % (len(vals), count)
        return None
    points = []
    for k in range(1, 9):
        for st0, f in ((1.0, 3.0), (1.0, 10.0), (0.25, 10.0), (1.0, 2.0), (0.1, 1.5), (3.0, 7.0)):
            p_ = st0 * f ** k
            points += [(st0, x, f) for x in (p_, math.nextafter(p_, math.inf), math.nextafter(p_, 0.0))]
    for _ in range(n):
        st0 = rng.choice([0.0, 0.0, rng.uniform(0, 3), rng.choice([0.1, 0.3, 1e-6, 1.0, 2.5])])
        f = rng.choice([1.01, 1.1, 1.5, 2.0, 3.0, 10.0, rng.uniform(1.001, 12)])
        sp = rng.choice([st0 + rng.uniform(0, 50) if st0 else rng.uniform(1e-3, 50), st0 * f ** rng.randint(0, 12) if st0 else f ** rng.randint(-3, 8), max(st0, 1e6)])
        if sp >= st0 and sp > 0:
            points.append((st0, sp, f))
    # magnitudes at the ends of the float range (the ratio stop/start is not a float any more), a factor a few ulps
    # above 1 with the stop a few ulps above the start, a negative zero start
    points += [(1e-308, 1e308, 10.0), (1e-300, 1e300, 1e100), (1e-310, 1.0, 10.0), (1e-6, 1e300, 1e50), (2.5e-308, 1.7e308, 3.0),
               (0.0, 1e308, 1e77), (1.0, 1.0 + 8 * 2.0 ** -52, math.nextafter(1.0, 2.0)), (3.0, 3.0 * (1 + 1e-12) ** 5, 1 + 1e-12),
               (-0.0, 5.0, 2.0), (-0.0, 0.5, 3.0)]
    import signal

    class Stuck(Exception):
        pass

    def on_alarm(signum, frame):
        raise Stuck()
    old_handler = signal.signal(signal.SIGALRM, on_alarm)
    for st0, sp, f in points:
        steps = 0 if (st0 or 1) >= sp else (math.log(sp, f) - math.log(st0 or 1, f))
        if steps > 3000:
            continue
        for default, count in ((True, None), (False, rng.choice([0, 1, 2, 7, 30]))):
            for label, fn in (("backoff", it.backoff), ("backoff_iter", it.backoff_iter)):
                try:
                    kw = {} if default else {"count": count}
                    if f != 2.0 or rng.random() < 0.5:
                        kw["factor"] = f
                    signal.alarm(20)          # a call that does not come back is a failure, not a hung check
                    form = rng.random()
                    if form < 0.6 or default and form < 0.8:
                        vals = list(fn(st0, sp, **kw))
                    elif default:
                        vals = list(fn(stop=sp, start=st0, **kw))                 # everything by keyword
                    else:
                        vals = list(fn(st0, sp, count, f) if form < 0.8 else fn(st0, sp, count, f, False))     # all positional
                    signal.alarm(0)
                except Stuck:
                    bad.append((label, {"start": st0, "stop": sp, "factor": f, "count": count, "why": "does not terminate"}))
                    continue
                except Exception as ex:
                    signal.alarm(0)
                    bad.append((label, {"start": st0, "stop": sp, "factor": f, "count": count, "why": "raised:" + core.exc_name(ex)}))
                    continue
                w = laws(vals, st0, sp, f, count, default)
                if w:
                    bad.append((label, {"start": st0, "stop": sp, "factor": f, "count": count, "why": w, "got": vals[:12]}))
        # 'repeat': the un-jittered law on a prefix well past the cap
        vals = list(itertools.islice(it.backoff_iter(st0, sp, count="repeat", factor=f), int(steps) + 6))
        w = laws(vals, st0, sp, f, len(vals), False)
        if w or vals[-1] != sp:
            bad.append(("backoff_iter(repeat)", {"start": st0, "stop": sp, "factor": f, "why": w or "does not settle at stop", "got": vals[-4:]}))
        # jitter with the real random source, every documented form, on default / counted / repeat sequences
        for j in (True, 1, -1, 0.5, -0.5, 1e-9, 0, 0.0, False):
            jf = float(j)
            base = list(it.backoff_iter(st0, sp, count=6, factor=f))
            got = list(it.backoff_iter(st0, sp, count=6, factor=f, jitter=j))
            got_r = list(itertools.islice(it.backoff_iter(st0, sp, count="repeat", factor=f, jitter=j), 6))
            for g_ in (got, got_r):
                if len(g_) != len(base) or any(not (min(b, b * (1 - jf)) <= x <= max(b, b * (1 - jf))) for x, b in zip(g_, base)):
                    bad.append(("backoff_iter(jitter)", {"start": st0, "stop": sp, "factor": f, "jitter": repr(j), "why": "outside the interval", "got": g_, "unjittered": base}))
                    break
            else:
                if not jf and got != base:
                    bad.append(("backoff_iter(jitter)", {"start": st0, "stop": sp, "factor": f, "jitter": repr(j), "why": "zero jitter changes values"}))
        # the default count with jitter, through both functions: same length as un-jittered, every value in its interval
        try:
            base = list(it.backoff_iter(st0, sp, factor=f)) if steps <= 200 else None
        except Exception:
            base = None             # reported above by the default-count law
        if base is not None:
            for j in (True, -1, 0.25, Fraction(1, 2)):
                jf = float(j)
                for label, fn in (("backoff", it.backoff), ("backoff_iter", it.backoff_iter)):
                    g_ = list(fn(st0, sp, factor=f, jitter=j))
                    if len(g_) != len(base) or any(not (min(b, b * (1 - jf)) <= x <= max(b, b * (1 - jf))) for x, b in zip(g_, base)):
                        bad.append((label + "(jitter)", {"start": st0, "stop": sp, "factor": f, "jitter": repr(j), "why": "default count with jitter: outside the interval or other length",
                                                         "got": g_[:8], "unjittered": base[:8]}))
    signal.signal(signal.SIGALRM, old_handler)
    # arguments of the other numeric types are the same numbers
    for st0, sp, f, cnt in ((1, 100, 10, None), (Fraction(1, 4), Fraction(33, 2), Fraction(3, 2), 7), (Decimal("0.5"), Decimal("40"), Decimal("3"), None),
                            (True, 9, 3, 4), ("1", "8", "2", None), (0, Fraction(5, 2), 2, 5), (2, 2, 1, 3)):
        for label, fn in (("backoff", it.backoff), ("backoff_iter", it.backoff_iter)):
            try:
                kw = {} if cnt is None else {"count": cnt}
                got = list(fn(st0, sp, factor=f, **kw))
                ref = list(fn(float(st0), float(sp), factor=float(f), **kw))
                w = laws(got, float(st0), float(sp), float(f), cnt, cnt is None)
                if got != ref or w:
                    bad.append((label + "(number-types)", {"start": repr(st0), "stop": repr(sp), "factor": repr(f), "count": cnt, "why": w or "differs from the float call", "got": got[:8]}))
            except Exception as ex:
                bad.append((label + "(number-types)", {"start": repr(st0), "stop": repr(sp), "factor": repr(f), "count": cnt, "why": "raised:" + core.exc_name(ex)}))
    # two generators alive at once do not share anything
    a_, b_ = it.backoff_iter(1.0, 50.0, factor=3.0, count=8), it.backoff_iter(1.0, 50.0, factor=3.0, count=8)
    inter = [x for pair in zip(a_, b_) for x in pair]
    solo = list(it.backoff_iter(1.0, 50.0, factor=3.0, count=8))
    if inter[0::2] != solo or inter[1::2] != solo:
        bad.append(("backoff_iter(interleaved)", {"why": "two live generators influence each other", "got": inter}))
    # backoff() has no endless form: 'repeat' is refused at once
    try:
        it.backoff(1.0, 8.0, count="repeat")
        bad.append(("backoff(invalid)", {"why": "count='repeat' accepted by backoff()"}))
    except ValueError:
        pass
    except Exception as ex:
        bad.append(("backoff(invalid)", {"why": "count='repeat' raised:" + core.exc_name(ex)}))
    # a hair outside the valid ranges, with every count form: ValueError before anything is yielded
    tiny = 5e-324
    for args, kw in (((-1, 1), {}), ((Fraction(-1, 3), 2), {}), ((1, 8), {"factor": Fraction(1, 2)}), ((-tiny, 1.0), {}), ((1.0, -1.0), {}), ((0.0, 0.0), {}), ((0.0, -0.0), {}), ((2.0, math.nextafter(2.0, 0.0)), {}),
                     ((1.0, 8.0), {"factor": math.nextafter(1.0, 0.0)}), ((1.0, 8.0), {"jitter": math.nextafter(1.0, 2.0)}),
                     ((1.0, 8.0), {"jitter": math.nextafter(-1.0, -2.0)}), ((1.0, 8.0), {"jitter": 2})):
        for count in (None, 0, 3, "repeat", -1):
            if count == -1 and not (args == (1.0, -1.0)):
                continue
            for label, fn in (("backoff", it.backoff), ("backoff_iter", it.backoff_iter)):
                if label == "backoff" and count == "repeat":
                    continue
                try:
                    g = fn(*args, count=count, **kw)
                    first = next(iter(g), "empty")
                    bad.append((label + "(invalid)", {"args": [repr(a) for a in args], "kw": {k: repr(v) for k, v in kw.items()}, "count": count,
                                                      "why": "no ValueError; first value %r" % (first,)}))
                except ValueError:
                    pass
                except Exception as ex:
                    bad.append((label + "(invalid)", {"args": [repr(a) for a in args], "kw": {k: repr(v) for k, v in kw.items()}, "count": count,
                                                      "why": "raised:" + core.exc_name(ex)}))
    return bad, len(points)


def main(tier, seed):
    t0 = time.time()
    stats, verdict = Stats(), Verdict(PROP, tier, seed)
    r = tlc_must_pass(SPECDIR, "BackoffMC.tla", "BackoffMC.cfg", workers=1, timeout=1500)
    stats.add_tlc(r)
    rows = r.payloads("T")
    for row in rows:
        stats.edges_executed += 1
        for label, got in run_row(row):
            sig = {"subject": "iterutils.backoff", "op": label.split("(")[0], "kind": row["kind"],
                   "start_zero": row["start"][0] == 0, "stop_below_one": q(row["stop"]) < 1}
            verdict.fail(sig, {"row": row, "call": label, "observed": got, "expected": [str(q(x)) for x in row["out"]]})
    fbad, npoints = float_laws(seed, 3000 if tier == "thorough" else 400)
    stats.extra["float_law_points"] = npoints
    stats.edges_executed += npoints
    for label, detail in fbad:
        verdict.fail({"subject": "iterutils.backoff", "op": label.split("(")[0], "kind": "float-laws:" + (label.split("(")[1][:-1] if "(" in label else "sequence"),
                      "why": detail["why"].split(",")[0][:40] if not detail["why"].startswith("value") else "growth"}, {"call": label, "observed": detail})
    probe = dict(next(x for x in rows if x["kind"] == "counted" and x["count"] == 5 and x["start"] == [1, 1] and x["stop"] == [8, 1] and x["factor"] == [2, 1]))
    probe["out"] = probe["out"][:-1] + [[7, 1]]
    if not run_row(probe):
        raise core.MachineryError("canary: altered reference sequence was not rejected")
    stats.extra["canary"] = "an altered reference sequence is rejected by the replay"
    stats.extra["rows"] = len(rows)
    stats.nontrivial = {core.canon([x[k] for k in ("kind", "start", "stop", "factor", "count", "jit", "draw")]) for x in rows if x["out"]}
    for x in rows[:: max(1, len(rows) // 5)]:
        stats.sample(x)
    rc = verdict.finish()
    core.write_evidence(PROP, tier, seed, stats.coverage(
        "one TLC state per grid point (kind, start, stop, factor, count, jitter, draw) with the laws evaluated on the rational reference; "
        "each point replayed on backoff, backoff_iter (also count='repeat', int arguments). distinct_nontrivial = points with a non-empty sequence.", True),
        ["finite grid of exactly representable parameters", "default count: only 'ends at stop' is required"], time.time() - t0, len(verdict.violations))
    return rc


def replay(path):
    case = json.load(open(path))["case"]
    print(json.dumps(case, indent=1)[:3000])
    print("re-run:", run_row(case["row"]))
    return 0
