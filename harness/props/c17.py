"""C17 - OneToOne / ManyToMany stay mutual inverses; FrozenDict immutable and content-hashed.

Specs: specs/bidict/Bidict.tla, M2M.tla, Frozen.tla (+ *MC, *Trace).
"""
import copy as copymod
import collections
import json
import types
import pickle
import random
import time

from harness import core
from harness.core import SPECS, Graph, Stats, Verdict, tlc_must_pass, GenericAdapter

PROP = "C17"
META = {
    "technique": "TLA+ reference specs (injective function / relation / frozen content) model-checked by TLC; full state graphs replayed on OneToOne, ManyToMany and FrozenDict through either side and every argument form; recorded traces validated by TLC",
    "level_text": "TLC checks on the bounded models that the inverse is derivable (mutual-inverse, transposition, no empty entries, immutability) and that an operation on .inv is the transposed operation; every transition is executed on the real classes through the forward or inverse object with all argument forms and both sides are read back and compared; random histories over more atoms are validated by TLC.",
    "level_note": "Bounds in specs/bidict/*.cfg (3 atoms serving as keys and values; relations up to 4 pairs in the ManyToMany graph). OneToOne construction from colliding values and popitem are set-valued in the spec. No proof about the Python source.",
}
SPECDIR = SPECS / "bidict"

CONCS = {
    "str": lambda i: "a%d" % i,
    "int": lambda i: 1000 + i,
    "tuple": lambda i: (i, "t"),
    # hashable values that are themselves collections (a mapping's value must be taken as ONE value)
    "frozenset": lambda i: frozenset({i, 200 + i}),
    # falsy keys and values (a test by truth value instead of presence would mistake them for "nothing there")
    "falsy": lambda i: (0, "", (), frozenset(), b"")[i - 1] if 1 <= i <= 5 else ("f", i),
    # the same atoms as "str", on instances of a subclass
    "str/subclass": lambda i: "a%d" % i,
}


def subclass_of(base, name):
    """a subclass of a library class, registered in this module so that its instances pickle by reference"""
    cls = globals().get(name)
    if cls is None or cls.__bases__ != (base,):
        cls = type(name, (base,), {"__module__": __name__})
        globals()[name] = cls
    return cls


class Base(GenericAdapter):
    def __init__(self, conc, U):
        self.name = conc
        f = CONCS[conc]
        self.A = lambda i: None if i == 0 else ([1] if i == 99 else f(i))
        self._tab = [(f(i), i) for i in range(1, 30)]
        self.U = U
        self.strkeys = conc.startswith("str")
        self.subclass = conc.endswith("/subclass")

    def dec(self, x):
        if x is None:
            return 0
        for c, i in self._tab:
            if c is x or (type(c) is type(x) and c == x):
                return i
        return -999

    def pairs(self, arg):
        return [(self.A(p[0]), self.A(p[1])) for p in arg]


# ------------------------------------------------------------------ OneToOne

class OtoDriver(Base):
    subject = "dictutils.OneToOne"

    def fresh(self, state):
        from boltons.dictutils import OneToOne
        self.cls = subclass_of(OneToOne, "OneToOneSub") if self.subclass else OneToOne
        return self.hold(self.cls())

    def hold(self, o):
        """keep the handle of the inverse view obtained now: it must stay THE inverse whatever is done later (kept beside
        the object, not on it: attributes would travel with copies and pickles)"""
        reg = self.__dict__.setdefault("_inv0", {})
        if len(reg) > 2000:
            reg.clear()
        try:
            reg[id(o)] = (o, o.inv)
        except Exception:
            pass
        return o

    def inv0(self, o):
        ent = self.__dict__.get("_inv0", {}).get(id(o))
        return ent[1] if ent and ent[0] is o else o.inv

    def variants(self, op):
        n = op["op"]
        distinct = len({p[0] for p in op["arg"]}) == len(op["arg"])
        hashable = all(p[1] != 99 for p in op["arg"])
        if n in ("update", "ctor", "unique"):
            v = ["pairs", "iter"]
            if distinct:
                v.append("dict")
                if hashable and n == "update":
                    v += ["mappingproxy", "userdict"]        # mappings that are not dicts
                if self.strkeys and hashable and op["arg"]:
                    v.append("kw")
                    if n == "update" and len(op["arg"]) >= 2:
                        v.append("pairs+kw")        # one call mixing pairs and keyword items
            return v
        if n == "ior":
            return ["pairs", "dict"] if distinct else ["pairs"]
        if n == "copy":
            # /twin: the copy is kept untouched while the source lives on; /swap: the history goes on with the copy and
            # the source is kept untouched (both only observed by the walks)
            return ["method", "ctor", "method/twin", "ctor/twin", "method/swap", "ctor/swap"]
        return [None]

    def form(self, arg, variant):
        ps = self.pairs(arg)
        if variant == "dict":
            return dict(ps)
        if variant == "mappingproxy":
            return types.MappingProxyType(dict(ps))
        if variant == "userdict":
            return collections.UserDict(dict(ps))
        if variant == "iter":
            return iter(ps)
        return ps

    def step(self, o, op, variant):
        A, dec = self.A, self.dec
        n, k = op["op"], op["k"]
        tgt = o if op["side"] == "fwd" else self.inv0(o)
        got = {}
        try:
            v = []
            if n == "setitem":
                tgt[A(k)] = A(op["v"])
            elif n == "delitem":
                del tgt[A(k)]
            elif n == "getitem":
                v = [dec(tgt[A(k)])]
            elif n == "update_failing":
                ps_ = self.pairs(op["arg"])

                def failing():
                    for p_ in ps_:
                        yield p_
                    raise RuntimeError("the source of the pairs broke off")
                tgt.update(failing())
            elif n == "update":
                if variant == "kw":
                    tgt.update((), **dict(self.pairs(op["arg"])))
                elif variant == "pairs+kw":
                    ps_ = self.pairs(op["arg"])
                    tgt.update(ps_[:len(ps_) // 2], **dict(ps_[len(ps_) // 2:]))
                else:
                    tgt.update(self.form(op["arg"], variant))
            elif n == "ior":
                t0 = tgt
                tgt |= self.form(op["arg"], variant)
                if tgt is not t0:
                    v = [-5]
            elif n in ("ctor", "unique"):
                mk = self.cls if n == "ctor" else self.cls.unique
                o = self.hold(mk(**dict(self.pairs(op["arg"]))) if variant == "kw" else mk(self.form(op["arg"], variant)))
            elif n == "setdefault":
                v = [dec(tgt.setdefault(A(k)) if op["d"] == -1 else tgt.setdefault(A(k), A(op["d"])))]
            elif n == "pop":
                v = [dec(tgt.pop(A(k)) if op["d"] == -1 else tgt.pop(A(k), A(op["d"])))]
            elif n == "popitem":
                a, b = tgt.popitem()
                v = [dec(a), dec(b)]
            elif n == "clear":
                tgt.clear()
            elif n == "copy":
                how, _, keep = (variant or "method").partition("/")
                c = tgt.copy() if how == "method" else copymod.copy(tgt) if how == "copy.copy" else self.cls(tgt)
                if type(c) is not self.cls or c is tgt:
                    v = [-5]
                cf = c if op["side"] == "fwd" else c.inv
                got["also_t"] = [self.observe(cf, None)]
                if keep == "twin":
                    got["twin"] = cf
                elif keep == "swap":
                    got["twin"] = o
                    o = cf
                else:
                    c[A(1)] = A(2)
                    c.inv[A(3)] = A(3)
                    c.clear()
            else:
                raise core.MachineryError("op " + n)
            r = {"e": "ok", "v": v}
        except (core.Hang, core.MachineryError):
            raise
        except Exception as ex:
            r = {"e": core.exc_name(ex), "v": []}
        got["r"] = r
        return o, got

    def observe(self, o, got):
        dec = self.dec
        res = {}
        try:
            res["fwd"] = sorted([dec(a), dec(b)] for a, b in dict.items(o))
            res["inv"] = sorted([dec(a), dec(b)] for a, b in dict.items(o.inv))
            res["len"] = len(o)
            res["len_inv"] = len(o.inv)
            res["inv_inv_is_self"] = o.inv.inv is o and (self.inv0(o) is o.inv)
            ok = True
            for a, b in list(dict.items(o)):
                ok = ok and o[a] == b and o.get(a) == b and a in o and b in o.inv and o.inv[b] == a
            ok = ok and sorted(map(dec, o.keys())) == [p[0] for p in res["fwd"]] and isinstance(repr(o), str)
            ok = ok and sorted(map(dec, o.values())) == sorted(p[1] for p in res["fwd"])
            res["lookups_agree"] = bool(ok)
        except core.Hang:
            raise
        except Exception as ex:
            res["raised"] = core.exc_name(ex)
        return res


# ------------------------------------------------------------------ ManyToMany

class M2MDriver(Base):
    subject = "dictutils.ManyToMany"

    def fresh(self, state):
        from boltons.dictutils import ManyToMany
        self.cls = subclass_of(ManyToMany, "ManyToManySub") if self.subclass else ManyToMany
        return self.cls()

    def variants(self, op):
        n = op["op"]
        if n in ("update", "ctor"):
            v = ["pairs", "iter", "m2m", "m2m-sub", "tuple"]
            if len({p[0] for p in op["arg"]}) == len(op["arg"]):
                v += ["dict", "mappingproxy"]
            return v
        if n == "setitem":
            return ["list", "iter", "set", "frozenset"]
        return [None]

    def step(self, o, op, variant):
        A, dec = self.A, self.dec
        n, k = op["op"], op["k"]
        tgt = o if op["side"] == "fwd" else o.inv
        got = {}
        try:
            v = []
            if n == "add":
                tgt.add(A(k), A(op["v"]))
            elif n == "remove":
                tgt.remove(A(k), A(op["v"]))
            elif n == "replace":
                tgt.replace(A(k), A(op["v"]))
            elif n == "setitem":
                vals = [A(x) for x in op["arg"]]
                f = variant or "list"
                tgt[A(k)] = vals if f == "list" else iter(vals) if f == "iter" else set(vals) if f == "set" else frozenset(vals)
            elif n == "delitem":
                del tgt[A(k)]
            elif n == "getitem":
                x = tgt[A(k)]
                v = sorted(dec(e) for e in x)
                if not isinstance(x, frozenset):
                    v = [-5]
            elif n in ("update", "ctor"):
                ps = self.pairs(op["arg"])
                f = variant or "pairs"
                other = None
                if f in ("m2m", "m2m-sub"):
                    other = (type("SubM2M", (self.cls,), {}) if f == "m2m-sub" else self.cls)()
                    for a, b in ps:
                        other.add(a, b)
                    arg = other
                else:
                    arg = ps if f == "pairs" else iter(ps) if f == "iter" else tuple(ps) if f == "tuple" else \
                        types.MappingProxyType(dict(ps)) if f == "mappingproxy" else dict(ps)
                if n == "ctor":
                    o = self.cls(arg)
                    tgt = o
                else:
                    tgt.update(arg)
                if other is not None:
                    # independence of the instance it was built / updated from, both directions
                    snap = sorted((dec(a), dec(b)) for a, b in other.iteritems())
                    snap_i = sorted((dec(a), dec(b)) for a, b in other.inv.iteritems())
                    for a, b in list(dict.fromkeys(ps)):
                        tgt.add(a, A(7))
                        tgt.remove(a, A(7))
                        tgt.inv.add(b, A(8))
                        tgt.inv.remove(b, A(8))
                    now = sorted((dec(a), dec(b)) for a, b in other.iteritems())
                    now_i = sorted((dec(a), dec(b)) for a, b in other.inv.iteritems())
                    if now != snap or now_i != snap_i or [(b, a) for a, b in snap] != sorted((b, a) for a, b in snap) and False:
                        v = [-6]
                    for a, b in list(dict.fromkeys(ps)):
                        other.add(a, A(9))
                        other.inv.add(b, A(10))
                        other.remove(a, b)
            else:
                raise core.MachineryError("op " + n)
            r = {"e": "ok", "v": v}
        except (core.Hang, core.MachineryError):
            raise
        except Exception as ex:
            r = {"e": core.exc_name(ex), "v": []}
        got["r"] = r
        return o, got

    def side(self, m):
        dec, A = self.dec, self.A
        pairs = sorted([dec(a), dec(b)] for a, b in m.iteritems())
        keys = sorted(dec(a) for a in m.keys())
        ne = all(len(m[a]) > 0 for a in m) and sorted(dec(a) for a in m) == keys
        return {"pairs": pairs, "keys": keys, "len": len(m),
                "get": [sorted(dec(x) for x in m.get(A(a))) for a in range(1, self.U + 1)],
                "contains": [A(a) in m for a in range(1, self.U + 1)],
                "no_empty_entries": bool(ne)}

    def observe(self, o, got):
        res = {}
        try:
            res["fwd"] = self.side(o)
            res["inv"] = self.side(o.inv)
            res["inv_inv_is_self"] = o.inv.inv is o
            same = self.cls(list(o.iteritems()))
            res["eq_same"] = bool(o == same) and isinstance(repr(o), str)
            same.add(self.A(11), self.A(12))
            res["eq_other"] = bool(o == same)
        except core.Hang:
            raise
        except Exception as ex:
            res["raised"] = core.exc_name(ex)
        return res


# ------------------------------------------------------------------ FrozenDict

class FrozenDriver(Base):
    subject = "dictutils.FrozenDict"

    def fresh(self, state):
        from boltons.dictutils import FrozenDict
        self.cls = subclass_of(FrozenDict, "FrozenDictSub") if self.subclass else FrozenDict
        return self.cls(self.pairs(state))

    def variants(self, op):
        n = op["op"]
        if n == "updated":
            base_ = ["dict", "pairs", "iter", "frozen", "mappingproxy"]
            if self.strkeys and all(p[1] != 99 for p in op["arg"]) and op["arg"]:
                base_ += ["kw"] + (["pairs+kw"] if len(op["arg"]) >= 2 and len({p[0] for p in op["arg"]}) == len(op["arg"]) else [])
            return base_
        if n == "copy":
            return ["copy.copy", "deepcopy", "pickle", "method"]
        return [None]

    def _next_proto(self):
        self._proto = (getattr(self, "_proto", -1) + 1) % (pickle.HIGHEST_PROTOCOL + 1)      # every pickle protocol in turn
        return self._proto

    def step(self, o, op, variant):
        A, dec = self.A, self.dec
        n, k = op["op"], op["k"]
        got = {}
        before = self.observe(o, None)
        try:
            v = []
            if n == "setitem":
                o[A(k)] = A(op["v"])
            elif n == "delitem":
                del o[A(k)]
            elif n == "update":
                o.update(dict(self.pairs(op["arg"])))
            elif n == "ior":
                o0 = o
                o |= dict(self.pairs(op["arg"]))
                o = o0
            elif n == "setdefault":
                o.setdefault(A(k), A(op["v"]))
            elif n == "pop":
                o.pop(A(k), None)
            elif n == "popitem":
                o.popitem()
            elif n == "clear":
                o.clear()
            elif n == "hash":
                try:
                    h1 = hash(o)
                except Exception as ex1:
                    try:
                        hash(o)
                    except Exception as ex2:
                        if type(ex1) is not type(ex2):
                            raise core.MachineryError("inconsistent hash errors")
                        raise ex2
                    raise AssertionError("hash raised once, then not")
                twin = self.cls(list(reversed(list(dict.items(o)))))
                via_updated = self.cls().updated(dict(o))
                v = [1 if (hash(o) == h1 and hash(twin) == h1 and twin == o and hash(via_updated) == h1 and len({o, twin}) == 1) else 0]
            elif n == "updated":
                src = o
                ps = self.pairs(op["arg"])
                f = variant or "dict"
                if f == "kw":
                    o = src.updated(**dict(ps))
                elif f == "pairs+kw":
                    o = src.updated(ps[:len(ps) // 2], **dict(ps[len(ps) // 2:]))
                elif f == "iter":
                    o = src.updated(iter(ps))
                elif f == "frozen":
                    o = src.updated(self.cls(ps))
                elif f == "mappingproxy":
                    o = src.updated(types.MappingProxyType(dict(ps)))
                else:
                    o = src.updated(dict(ps) if f == "dict" else ps)
                if type(o) is not self.cls:
                    v = [-5]
                got["also_f"] = [self.observe(src, None)]
            elif n == "ctor_from_self":
                src = o
                o = self.cls(src)
                got["also_f"] = [self.observe(src, None)]
            elif n == "copy":
                src = o
                f = variant or "copy.copy"
                c = copymod.copy(src) if f == "copy.copy" else copymod.deepcopy(src) if f == "deepcopy" else \
                    pickle.loads(pickle.dumps(src, protocol=self._next_proto())) if f == "pickle" else src.copy()
                if f != "method" and type(c) is not self.cls:
                    v = [-5]
                if f == "method" and type(c) is self.cls and c is not src:
                    pass
                got["also_t"] = [self.observe(c, None)] if isinstance(c, self.cls) else [dict(self.observe(self.cls(c), None))]
                got["also_f"] = [self.observe(src, None)]
            elif n == "fromkeys":
                keys = [A(p[0]) for p in op["arg"]]
                o = self.cls.fromkeys(keys, A(op["v"])) if op["v"] else self.cls.fromkeys(keys)
            else:
                raise core.MachineryError("op " + n)
            r = {"e": "ok", "v": v}
        except (core.Hang, core.MachineryError):
            raise
        except Exception as ex:
            r = {"e": core.exc_name(ex), "v": []}
        got["r"] = r
        return o, got

    def observe(self, o, got):
        dec, A = self.dec, self.A
        res = {}
        try:
            res["items"] = sorted([dec(a), dec(b) if not isinstance(b, list) else 99] for a, b in dict.items(o))
            res["len"] = len(o)
            res["get"] = [([dec(o[A(a)]) if not isinstance(o[A(a)], list) else 99] if A(a) in o else []) for a in range(1, self.U + 1)]
            res["eq_same_dict"] = bool(o == dict(dict.items(o))) and isinstance(repr(o), str)
            res["is_dict"] = isinstance(o, dict)
            try:
                res["hashable"] = hash(o) == hash(o)
            except Exception as ex:
                if core.exc_name(ex) != "FrozenHashError":
                    raise
                res["hashable"] = False
        except core.Hang:
            raise
        except Exception as ex:
            res["raised"] = core.exc_name(ex)
        return res


# ------------------------------------------------------------------ traces

def rec_oto(n, length, seed, U=5):
    rng = random.Random(seed)
    out = []
    for t in range(n):
        drv = OtoDriver(rng.choice(list(CONCS)), U)
        o = drv.fresh(None)
        evs = []
        for i in range(length):
            n_ = rng.choice(["setitem", "setitem", "setitem", "delitem", "update", "update", "ior", "setdefault", "pop",
                             "popitem", "clear", "copy", "getitem", "ctor", "unique"])
            if n_ in ("clear", "ctor", "unique") and rng.random() < 0.7:
                n_ = "setitem"
            op = {"op": n_, "side": rng.choice(["fwd", "inv"]), "k": 0, "v": 0, "d": 0, "arg": []}
            if n_ in ("setitem", "delitem", "getitem", "setdefault", "pop"):
                op["k"] = rng.randint(1, U)
            if n_ == "setitem":
                op["v"] = rng.choice([rng.randint(1, U)] * 9 + [99])
            if n_ == "setdefault":
                op["d"] = rng.choice([-1] + list(range(1, U + 1)))
            if n_ == "pop":
                op["d"] = rng.choice([-1, 0, 2])
            if n_ in ("update", "ior", "ctor", "unique"):
                op["arg"] = [[rng.randint(1, U), rng.choice([rng.randint(1, U)] * 12 + [99])] for _ in range(rng.randint(0, 3))]
                if n_ in ("ctor", "unique"):
                    op["side"] = "fwd"
                    op["arg"] = [[a, b if b != 99 else 1] for a, b in op["arg"]]
            variant = rng.choice(drv.variants(op))
            o, got = drv.step(o, op, variant)
            evs.append({"op": op, "variant": variant or "", "r": got["r"], "obs": drv.observe(o, got), "also_t": got.get("also_t", [])})
        out.append({"conc": drv.name, "U": U, "ev": evs})
    return out


def rec_m2m(n, length, seed, U=5):
    rng = random.Random(seed)
    out = []
    for t in range(n):
        drv = M2MDriver(rng.choice(list(CONCS)), U)
        o = drv.fresh(None)
        evs = []
        for i in range(length):
            n_ = rng.choice(["add", "add", "add", "remove", "remove", "replace", "setitem", "delitem", "update", "getitem", "ctor"])
            if n_ == "ctor" and rng.random() < 0.7:
                n_ = "add"
            op = {"op": n_, "side": rng.choice(["fwd", "inv"]), "k": 0, "v": 0, "arg": []}
            if n_ in ("add", "remove", "replace"):
                op["k"], op["v"] = rng.randint(1, U), rng.randint(1, U)
            if n_ in ("setitem", "delitem", "getitem"):
                op["k"] = rng.randint(1, U)
            if n_ == "setitem":
                op["arg"] = [rng.randint(1, U) for _ in range(rng.randint(0, 3))]
            if n_ in ("update", "ctor"):
                op["arg"] = [[rng.randint(1, U), rng.randint(1, U)] for _ in range(rng.randint(0, 3))]
                if n_ == "ctor":
                    op["side"] = "fwd"
            variant = rng.choice(drv.variants(op))
            o, got = drv.step(o, op, variant)
            evs.append({"op": op, "variant": variant or "", "r": got["r"], "obs": drv.observe(o, got), "also_t": []})
        out.append({"conc": drv.name, "U": U, "ev": evs})
    return out


def clean(traces, template):
    """Replace observations of an unexpected JSON shape by a never-matching marker (TLC cannot
    compare values of different kinds)."""
    for tr in traces:
        for ev in tr["ev"]:
            for key in ("obs",):
                if "raised" in ev[key] or set(ev[key]) != set(template):
                    ev[key] = dict(template)
            ev["also_t"] = [o if ("raised" not in o and set(o) == set(template)) else dict(template) for o in ev["also_t"]]
    return traces


OTO_BAD = {"fwd": [[-7, -7]], "inv": [[-7, -7]], "len": -7, "len_inv": -7, "inv_inv_is_self": False, "lookups_agree": False}
_side_bad = {"pairs": [[-7, -7]], "keys": [-7], "len": -7, "get": [[-7]], "contains": [False], "no_empty_entries": False}
M2M_BAD = {"fwd": _side_bad, "inv": _side_bad, "inv_inv_is_self": False, "eq_same": False, "eq_other": True}


def main(tier, seed):
    t0 = time.time()
    stats, verdict = Stats(), Verdict(PROP, tier, seed)
    thorough = tier == "thorough"
    concs = list(CONCS) if thorough else ["str", "falsy", "str/subclass"]
    for mod, mc, gen, drv_cls, U in (("BidictMC.tla", "BidictMC.cfg", "BidictGen.cfg", OtoDriver, 3),
                                     ("M2MMC.tla", "M2MMC.cfg", "M2MGen_thorough.cfg" if thorough else "M2MGen.cfg", M2MDriver, 3),
                                     ("FrozenMC.tla", "FrozenMC.cfg", "FrozenGen.cfg", FrozenDriver, 2)):
        stats.add_tlc(tlc_must_pass(SPECDIR, mod, mc, workers=core.NCPU, timeout=1500))
        r = tlc_must_pass(SPECDIR, mod, gen, workers=1, timeout=1500)
        stats.add_tlc(r)
        g = Graph(r)
        stats.extra["graph_edges_" + drv_cls.subject.split(".")[1]] = g.n_edges
        for cn in concs:
            core.replay_graph_generic(g, drv_cls(cn, U), verdict, stats)
        core.replay_walks(g, drv_cls("frozenset", U), verdict, stats, n_walks=2000 if thorough else 300, length=20, seed=seed)
    n = 3000 if thorough else 300
    canary(stats)
    core.validate_traces_generic(SPECDIR, "BidictTrace.tla", "BidictTrace.cfg", clean(rec_oto(n, 40, seed), OTO_BAD),
                                 stats, verdict, OtoDriver.subject)
    tr = clean(rec_m2m(n, 40, seed + 1), M2M_BAD)
    core.validate_traces_generic(SPECDIR, "M2MTrace.tla", "M2MTrace.cfg", tr, stats, verdict, M2MDriver.subject)
    stats.sample({"m2m_trace_first_events": [{"op": e["op"], "r": e["r"], "fwd_pairs": e["obs"]["fwd"]["pairs"]} for e in tr[0]["ev"][:4]]})
    rc = verdict.finish()
    core.write_evidence(PROP, tier, seed, stats.coverage(
        "graphs: every (state, op, side, argument form) group of the bounded OneToOne / ManyToMany / FrozenDict models "
        "executed on the real classes from a fresh object along a shortest path, both sides read back and compared; "
        "traces: seeded random histories over 5 atoms validated by TLC. distinct_nontrivial = distinct (state, op) groups "
        "whose execution changed state or raised.", True),
        ["bounds: see specs/bidict/*.cfg", "OneToOne construction with colliding values: any one-to-one selection keeping every value is admitted",
         "popitem victim unspecified"], time.time() - t0, len(verdict.violations))
    return rc


def canary(stats):
    drv = OtoDriver("str", 5)
    o = drv.fresh(None)
    evs = []
    for k, v in ((1, 2), (2, 3), (3, 3)):
        op = {"op": "setitem", "side": "fwd", "k": k, "v": v, "d": 0, "arg": []}
        o, got = drv.step(o, op, None)
        evs.append({"op": op, "variant": "", "r": got["r"], "obs": drv.observe(o, got), "also_t": []})
    good = {"conc": "str", "U": 5, "ev": evs}
    bad = json.loads(json.dumps(good))
    bad["ev"][2]["obs"]["inv"] = [[2, 1], [3, 2]]
    v = Verdict(PROP, "canary", 0)
    v.findings.entries = []
    s = Stats()
    core.validate_traces_generic(SPECDIR, "BidictTrace.tla", "BidictTrace.cfg", [good, bad], s, v, "canary", shards=1)
    if s.traces_accepted == 0:
        return
    if s.traces_accepted != 1 or len(v.violations) != 1 or v.violations[0][1]["rejected_at_event"] != 3:
        raise core.MachineryError("trace canary: expected exactly the corrupted trace to be rejected at event 3")
    stats.extra["canary"] = "corrupted inverse side in a recorded trace rejected at the right event"


def replay(path):
    case = json.load(open(path))["case"]
    print(json.dumps(case, indent=1, default=str)[:6000])
    return 0
