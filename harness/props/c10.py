"""C10 - priority queues: highest priority first, FIFO among equals; both classes identical.

Spec: specs/pq/PQ.tla, PQMC (graph), PQTrace.
"""
import itertools
import json
from decimal import Decimal
from fractions import Fraction
import random
import time

from harness import core
from harness.core import SPECS, Graph, Stats, Verdict, tlc_must_pass, GenericAdapter

PROP = "C10"
META = {
    "technique": "TLA+ reference spec of the queue (PQ.tla: live entries in arrival order, service order by effective priority then arrival) model-checked by TLC; full state graph replayed on HeapPriorityQueue and SortedPriorityQueue side by side (BarrelList forced to split early); long recorded histories validated by TLC (PQTrace.tla)",
    "level_text": "TLC checks the service-order clauses on every state of the bounded model; every transition is executed on both queue classes (and on SortedPriorityQueue with a tiny BarrelList size factor so a handful of entries already spans several sub-lists), comparing each result and the complete drain order; histories of hundreds to thousands of operations over 40 tasks with many equal priorities are validated event by event by TLC.",
    "level_note": "Bounds in specs/pq/*.cfg (3-4 tasks, priorities {-1,0,2,None}). BarrelList._size_factor is lowered on the queue instance by the harness to reach multi-sub-list behaviour in short histories; shipped factor also run in traces. No proof about the Python source.",
}
SPECDIR = SPECS / "pq"
CONCS = {
    "str-tasks/int-prios": (lambda t: "t%d" % t, lambda p: None if p == 99 else p),
    "tuple-tasks/float-prios": (lambda t: (t, "task"), lambda p: None if p == 99 else float(p)),
    "int-tasks/int-prios": (lambda t: 7000 + t, lambda p: None if p == 99 else p),
    # falsy and None tasks; priorities of every numeric type in one queue (equal numbers of different types tie)
    "falsy-tasks/mixed-prios": (lambda t: (None, 0, "", (), frozenset(), 0.5)[t - 1] if 1 <= t <= 6 else ("t", t),
                                # (the type changes from call to call: 2, 2.0, Fraction(2) and Decimal(2) tie and arrival decides)
                                lambda p, _c=itertools.count(): None if p == 99 else
                                [p, float(p), Fraction(p), Decimal(p), bool(p) if p in (0, 1) else p][next(_c) % 5]),
    # the constructor's priority_key option: callers hand in negated numbers and the key turns them back into the
    # effective priority (smaller key value = served first); numeric strings and very large ints under the default key
    "str-tasks/negated-prios+priority_key": (lambda t: "t%d" % t, lambda p: None if p == 99 else -p, {"priority_key": lambda p: float(p or 0)}),
    "str-tasks/numeric-string-prios": (lambda t: "t%d" % t, lambda p: None if p == 99 else "%d" % p if p % 2 else "%d.0" % p),
    # priorities that are not whole numbers (p -> 3p/8 as float / Fraction / Decimal: a key that rounded or truncated would tie 0.375 and -0.375 with 0)
    "str-tasks/fractional-prios": (lambda t: "t%d" % t, lambda p: None if p == 99 else [p * 0.375, Fraction(3 * p, 8), Decimal(p) * Decimal("0.375")][p % 3]),
    "int-tasks/huge-int-prios": (lambda t: 7000 + t, lambda p: None if p == 99 else p * 2 ** 60),
}
VARIANTS = [("HeapPriorityQueue", None), ("SortedPriorityQueue", None), ("SortedPriorityQueue", 1), ("SortedPriorityQueue", 3)]


def make(kind, factor, kw=None):
    from boltons import queueutils
    q = getattr(queueutils, kind)(**(kw or {}))
    if factor is not None:
        try:
            from boltons.listutils import BarrelList
            # whatever the attribute holding the backend is called: this queue's BarrelList splits early
            for val in list(vars(q).values()):
                if isinstance(val, BarrelList):
                    val._size_factor = factor
        except Exception:
            pass
    return q


class Driver(GenericAdapter):
    subject = "queueutils.PriorityQueue"

    def __init__(self, conc, variants=VARIANTS):
        self.name = conc
        self.T, self.P = CONCS[conc][:2]
        self.ctor_kw = CONCS[conc][2] if len(CONCS[conc]) > 2 else None
        self._tab = {}
        for i in range(1, 200):
            self._tab[self.T(i)] = i
        self.kinds = variants
        # the value handed to pop / peek as default: falsy ones where no task can be mistaken for it
        self.default = "DEFAULT" if conc.startswith("falsy") else {"str": None, "tup": 0, "int": ""}[conc[:3]]
        if "priority_key" in conc and variants is VARIANTS:
            self.kinds = [("PriorityQueue", None)] + list(variants)       # the documented default name too
        self.calls = 0

    def dec(self, x):
        if x is self.default or (self.default == "DEFAULT" and x == "DEFAULT"):
            return 77
        try:
            return self._tab.get(x, -999)
        except TypeError:
            return -999

    def fresh(self, st):
        return [make(k, f, self.ctor_kw) for k, f in self.kinds]

    def one(self, q, op):
        n = op["op"]
        try:
            v = []
            self.calls += 1
            kwform = self.calls % 3 == 0          # every third call spells its arguments as keywords
            if n == "add":
                if op["p"] == 99 and op.get("omit"):
                    q.add(task=self.T(op["t"])) if kwform else q.add(self.T(op["t"]))
                elif kwform:
                    q.add(task=self.T(op["t"]), priority=self.P(op["p"]))
                elif self.calls % 3 == 1:
                    q.add(self.T(op["t"]), priority=self.P(op["p"]))
                else:
                    q.add(self.T(op["t"]), self.P(op["p"]))
            elif n == "remove":
                q.remove(task=self.T(op["t"])) if kwform else q.remove(self.T(op["t"]))
            elif n == "pop":
                v = [self.dec(q.pop() if op["d"] == -1 else q.pop(default=self.default) if kwform else q.pop(self.default))]
            elif n == "peek":
                v = [self.dec(q.peek() if op["d"] == -1 else q.peek(default=self.default) if kwform else q.peek(self.default))]
            elif n == "len":
                v = [len(q)]
            else:
                raise core.MachineryError("op " + n)
            return {"e": "ok", "v": v}
        except (core.Hang, core.MachineryError):
            raise
        except Exception as ex:
            return {"e": core.exc_name(ex), "v": []}

    def step(self, qs, op, variant):
        rs = [self.one(q, op) for q in qs]
        got = {"r": rs[0], "all": rs}
        return qs, got

    def match(self, got, pred):
        for (k, f), r in zip(self.kinds, got["all"]):
            if r != pred["r"]:
                return "result@%s%s" % (k, "" if f is None else "/factor%s" % f)
        return None

    def drain(self, q):
        out = []
        n = len(q)
        for _ in range(n + 3):
            try:
                out.append(self.dec(q.pop()))
            except IndexError:
                break
        else:
            out.append(-1)       # did not become empty
        try:
            class Anything:               # equal to everything: a default is recognised by identity, not by comparison
                def __eq__(self, other):
                    return True

                def __ne__(self, other):
                    return False
                __hash__ = None
            any_, lst_ = Anything(), []
            if q.pop("DEFAULT") != "DEFAULT" or q.peek("DEFAULT") != "DEFAULT" or q.pop(None) is not None or q.peek(0) != 0 or len(q) != 0 or \
                    q.pop(any_) is not any_ or q.peek(any_) is not any_ or q.pop(lst_) is not lst_ or q.peek(default=lst_) is not lst_:
                out.append(-2)
        except Exception:
            out.append(-3)
        return out

    walk_mode = False        # True: the queues live on after an observation (only len and peek are read)

    def observe(self, qs, got):
        if self.walk_mode:
            # (no copies: copying a queue is not among the promised operations) - what can be read without changing it
            def peek_(q):
                try:
                    return self.dec(q.peek(self.default))
                except Exception as ex:             # (a default was given: nothing may be raised)
                    return "raised:" + core.exc_name(ex)
            return {"per_class": [{"len": len(q), "peek": peek_(q)} for q in qs]}
        return {"per_class": [{"len": len(q), "drain": self.drain(q)} for q in qs]}

    def compare(self, obs, pobs, st):
        if self.walk_mode:
            want = {"len": pobs["len"], "peek": pobs["drain"][0] if pobs["drain"] else 77}
            for (k, f), o in zip(self.kinds, obs["per_class"]):
                d = core.first_diff(o, want)
                if d:
                    return "%s@%s%s" % (d, k, "" if f is None else "/factor%s" % f)
            return None
        for (k, f), o in zip(self.kinds, obs["per_class"]):
            d = core.first_diff(o, pobs)
            if d:
                return "%s@%s%s" % (d, k, "" if f is None else "/factor%s" % f)
        return None


def record_bulk(seed, n_add, kinds):
    """Queues of tens of thousands of entries with the shipped BarrelList sizing (it first splits at ~21.9k entries):
    batches of adds, removes, re-adds and pops, one event per batch; the drain at the end pops everything."""
    rng = random.Random(seed)
    traces = []
    for kind in kinds:
        q = make(kind, None)
        T = lambda i: 7000 + i
        evs = []
        prios = rng.choice([[0, 1, 2, 3, 99], [-5, 0, 5, 99], list(range(-20, 20)), [0]])
        order = rng.choice(["random", "ascending", "descending"])

        def batch_add(ids):
            items = []
            for j, i in enumerate(ids):
                p_ = rng.choice(prios) if order == "random" else (j % 1000 if order == "ascending" else -(j % 1000))
                q.add(T(i), None if p_ == 99 else p_)
                items.append([i, p_])
            evs.append({"op": {"op": "bulk_add", "t": 0, "p": 0, "d": 0}, "items": items, "tasks": [], "popped": [], "len": len(q), "r": {"e": "ok", "v": []}, "drain": []})

        def batch_remove(ids):
            for i in ids:
                q.remove(T(i))
            evs.append({"op": {"op": "bulk_remove", "t": 0, "p": 0, "d": 0}, "items": [], "tasks": list(ids), "popped": [], "len": len(q), "r": {"e": "ok", "v": []}, "drain": []})

        def batch_pop(n_):
            out = []
            try:
                for _ in range(n_):
                    out.append(q.pop() - 7000)
            except Exception as ex:
                out.append(-7)
            evs.append({"op": {"op": "pop_n", "t": 0, "p": 0, "d": 0}, "items": [], "tasks": [], "popped": out, "len": len(q), "r": {"e": "ok", "v": []}, "drain": []})
        ids = list(range(1, n_add + 1))
        batch_add(ids)
        batch_remove(rng.sample(ids, n_add // 10))
        batch_add(rng.sample(ids, n_add // 10))               # re-adds of live tasks and of removed ones
        batch_pop(n_add // 3)
        batch_add(list(range(n_add + 1, n_add + n_add // 5)))
        batch_pop(len(q))
        batch_add([1, 2, 3])                                   # the emptied queue is used again
        batch_pop(3)
        traces.append({"kind": kind, "factor": -1, "conc": "bulk", "ev": evs})
    return traces


def record(n, length, seed, ntasks=40):
    rng = random.Random(seed)
    traces = []
    for t in range(n):
        kind, factor = VARIANTS[t % len(VARIANTS)]
        if t % 11 == 10:
            kind, factor = "SortedPriorityQueue", 0.3
        drv = Driver(rng.choice(list(CONCS)), [(kind, factor)])
        q = drv.fresh(None)[0]
        evs = []
        prios = rng.choice([[0, 0, 0, 1, 99], [-2, -1, 0, 1, 2, 3, 99], [5, 5, 5, 5], [0, 99]])
        grow = rng.random() < 0.6
        for i in range(length):
            c = rng.random()
            if c < (0.6 if grow else 0.45):
                op = {"op": "add", "t": rng.randint(1, ntasks), "p": rng.choice(prios), "d": 0, "omit": rng.random() < 0.3}
            elif c < 0.7:
                op = {"op": "remove", "t": rng.randint(1, ntasks), "p": 0, "d": 0}
            elif c < 0.85:
                op = {"op": "pop", "t": 0, "p": 0, "d": rng.choice([-1, 77])}
            elif c < 0.95:
                op = {"op": "peek", "t": 0, "p": 0, "d": rng.choice([-1, 77])}
            else:
                op = {"op": "len", "t": 0, "p": 0, "d": 0}
            r = drv.one(q, op)
            evs.append({"op": op, "r": r, "len": len(q)})
        evs.append({"op": {"op": "drain", "t": 0, "p": 0, "d": 0}, "r": {"e": "ok", "v": []}, "len": 0, "drain": drv.drain(q)})
        traces.append({"kind": kind, "factor": factor if factor is not None else -1, "conc": drv.name, "ev": evs})
    return traces


def main(tier, seed):
    t0 = time.time()
    stats, verdict = Stats(), Verdict(PROP, tier, seed)
    thorough = tier == "thorough"
    stats.add_tlc(tlc_must_pass(SPECDIR, "PQMC.tla", "PQMC_thorough.cfg" if thorough else "PQMC.cfg", workers=core.NCPU, timeout=1500))
    r = tlc_must_pass(SPECDIR, "PQMC.tla", "PQGen_thorough.cfg" if thorough else "PQGen.cfg", workers=1, timeout=1500)
    stats.add_tlc(r)
    g = Graph(r)
    stats.extra["graph_states"], stats.extra["graph_edges"] = len(g.states), g.n_edges
    for cn in (list(CONCS) if thorough else [list(CONCS)[0], list(CONCS)[3], list(CONCS)[4], "str-tasks/fractional-prios"]):
        core.replay_graph_generic(g, Driver(cn), verdict, stats)
    # histories on ONE object per walk: states that are abstractly the same (an empty queue) but differ inside (entries of
    # removed tasks still in the backend, counters) are reached over and over
    wdrv = Driver(list(CONCS)[0])
    wdrv.walk_mode = True
    core.replay_walks(g, wdrv, verdict, stats, n_walks=1500 if thorough else 300, length=30, seed=seed)
    canary(stats)
    traces = record(400 if thorough else 80, 3000 if thorough else 400, seed)
    core.validate_traces_generic(SPECDIR, "PQTrace.tla", "PQTrace.cfg", traces, stats, verdict, Driver.subject,
                                 sig_extra=lambda tr, ev: {"cls": tr["kind"], "factor": tr["factor"]})
    bulk = record_bulk(seed, 60000 if thorough else 24000, ["HeapPriorityQueue", "SortedPriorityQueue"])
    stats.extra["bulk_queue_entries"] = 60000 if thorough else 24000
    core.validate_traces_generic(SPECDIR, "PQTrace.tla", "PQTrace.cfg", bulk, stats, verdict, Driver.subject, shards=2,
                                 sig_extra=lambda tr, ev: {"cls": tr["kind"], "factor": "shipped", "bulk": True})
    stats.sample({"trace_kind": traces[0]["kind"], "first_events": traces[0]["ev"][:4]})
    rc = verdict.finish()
    core.write_evidence(PROP, tier, seed, stats.coverage(
        "graph: every (state, op) group of the bounded queue model executed on HeapPriorityQueue and SortedPriorityQueue "
        "(shipped and tiny BarrelList size factors) from fresh queues along a shortest path, comparing the result and the "
        "complete drain order; traces: seeded histories over 40 tasks with many equal priorities, per class, validated by TLC "
        "event by event incl. final drain order. distinct_nontrivial = distinct (state, op) groups that changed state or raised.", True),
        ["bounds: see specs/pq/*.cfg", "BarrelList._size_factor lowered per instance to reach sub-list splits in short histories"],
        time.time() - t0, len(verdict.violations))
    return rc


def canary(stats):
    tr = record(2, 30, 999)
    bad = json.loads(json.dumps(tr[1]))
    d = bad["ev"][-1]["drain"]
    if len(d) >= 2:
        d[0], d[-1] = d[-1], d[0]
    else:
        d.append(5)
    v = Verdict(PROP, "canary", 0)
    v.findings.entries = []
    s = Stats()
    core.validate_traces_generic(SPECDIR, "PQTrace.tla", "PQTrace.cfg", [tr[0], bad], s, v, "canary", shards=1)
    if s.traces_accepted == 0:
        return
    if s.traces_accepted != 1 or len(v.violations) != 1:
        raise core.MachineryError("trace canary: a permuted drain order was not rejected")
    stats.extra["canary"] = "permuted drain order in a recorded trace rejected by TLC"


def replay(path):
    case = json.load(open(path))["case"]
    print(json.dumps(case, indent=1, default=str)[:6000])
    return 0
