"""C20 - ThresholdCounter never over-counts, under-counts boundedly, stays small.

Spec: specs/lossy/Lossy.tla (promise + mechanism), LossyMC (all short streams), LossyTrace.
"""
import json
import random
import time

from harness import core
from harness.core import SPECS, Graph, Stats, Verdict, tlc_must_pass, GenericAdapter

PROP = "C20"
META = {
    "technique": "TLA+ spec of the lossy-counting promise and of the mechanism (Lossy.tla); TLC checks the mechanism meets the promise on every short stream; every stream of the bounded model replayed on ThresholdCounter and judged against the promise; long adversarial runs validated by TLC (LossyTrace.tla)",
    "level_text": "TLC shows exhaustively (all canonical streams up to 4 buckets, thresholds 1/2..1/5 incl. non-reciprocal ones) that the compaction rule keeps every clause of the property; each of those streams is replayed on the real class and after every addition all reads are judged against the property's bounds computed from the true counts; long adversarial and random streams with mapping/keyword updates are validated by TLC against the same bounds.",
    "level_note": "The binding judges the bounds the property states (from ghost true counts), not equality with the Manku-Motwani mechanism, so a different compaction schedule that still meets the bounds is not an alarm. Thresholds are rationals; float rounding of 1/threshold is covered only for the listed values.",
}
SPECDIR = SPECS / "lossy"

CONCS = {"str": lambda i: "k%d" % i, "int": lambda i: 500 + i, "tuple": lambda i: ("t", i),
         # keys of several types that cannot be ordered against each other
         "mixed": lambda i: {1: 0, 2: "", 5: (), 6: False if False else frozenset()}.get(i, ("m%d" % i, 700 + i, ("t", i), None if i == 3 else float(i) + 0.5)[i % 4])}


class Driver(GenericAdapter):
    subject = "cacheutils.ThresholdCounter"

    def __init__(self, conc):
        self.name = conc
        self.K = CONCS[conc]
        self._tab = {}
        for i in range(1, 6000):
            self._tab[self.K(i)] = i

    def dec(self, x):
        try:
            return self._tab.get(x, -999)
        except TypeError:
            return -999

    def fresh(self, st):
        from boltons.cacheutils import ThresholdCounter
        tc = ThresholdCounter(threshold=st["tp"] / st["tq"])
        tc._verif_n = len(st["truec"])
        return tc

    def variants(self, op):
        if op["op"] == "update_counts" and self.name == "str":
            # one call mixing the argument forms: mapping + keyword counts (a key in both adds up), iterable + keyword counts
            return ["update_map", "update_kw", "update_kwonly", "update_map_kw", "update_iter_kw", "update_map_zeros"]
        return ["add", "update_iter", "update_map", "update_kw" if self.name == "str" else "update_gen", "add_failing", "update_failing",
                "update_tuple", "update_iterator", "update_deque", "update_ordereddict", "update_counter", "update_iteritems_only",
                "update_thresholdcounter", "update_mappingproxy", "update_zero_counts"]

    def step(self, tc, op, variant):
        K = self.K
        try:
            ks = stream(op)
            if op["op"] == "add" and (variant or "add") == "add":
                tc.add(K(op["k"]))
            elif op["op"] == "update_counts":
                d = {K(k): c for k, c in op["kc"]}
                if variant == "update_kw":
                    tc.update(None, **d)
                elif variant == "update_kwonly":
                    tc.update(**d)
                elif variant == "update_map_kw":
                    m_ = {k: c // 2 if i % 2 == 0 else c for i, (k, c) in enumerate(d.items())}
                    kw_ = {k: c - m_[k] for k, c in d.items() if c - m_[k] > 0 or k in list(d)[:1]}
                    tc.update({k: c for k, c in m_.items() if c > 0 or k not in kw_}, **kw_)
                elif variant == "update_map_zeros":
                    # entries with a count of zero add nothing, wherever in the mapping they stand and whatever the total is
                    z_ = {K(len(d) + 7): 0}
                    z_.update(d)
                    z_[K(len(d) + 8)] = 0
                    tc.update(z_, **{K(1): 0})
                elif variant == "update_iter_kw":
                    first = list(d.items())[:1]
                    tc.update([k for k, c in first for _ in range(c // 2)], **{k: (c - c // 2 if (k, c) in first else c) for k, c in d.items()})
                else:
                    tc.update(d)
            elif variant == "add_failing":
                # an addition that cannot be made (unhashable key) is not an addition; the counter stays usable
                try:
                    tc.add([K(ks[0])] if ks else [])
                    raise core.MachineryError("unhashable key accepted")
                except TypeError:
                    pass
                for k in ks:
                    tc.add(K(k))
            elif variant == "update_failing":
                # the iterable breaks off after its first keys: exactly those were added
                try:
                    tc.update([K(k) for k in ks] + [[], K(1)])
                    raise core.MachineryError("unhashable key accepted")
                except TypeError:
                    pass
            elif variant == "update_map" and len(ks) == 1:
                tc.update({K(ks[0]): 1})
            elif variant == "update_kw" and len(ks) == 1:
                tc.update(None, **{K(ks[0]): 1})
            elif variant == "update_gen":
                tc.update(K(k) for k in ks)
            elif variant == "update_tuple":
                tc.update(tuple(K(k) for k in ks))
            elif variant == "update_iterator":
                tc.update(iter([K(k) for k in ks]))
            elif variant == "update_deque":
                import collections
                tc.update(collections.deque(K(k) for k in ks))
            elif variant == "update_thresholdcounter":
                # another (non-compacting) ThresholdCounter as the source: its pairs are added with their counts
                from boltons.cacheutils import ThresholdCounter
                src_ = ThresholdCounter(threshold=0.0001)
                src_.update([K(k) for k in ks])
                before_ = (src_.items(), src_.total)
                tc.update(src_)
                if (src_.items(), src_.total) != before_:
                    raise core.MachineryError("update(source) changed the source counter")
            elif variant == "update_zero_counts":
                # zero counts (a Counter after subtract, kw=0) are no additions: before, between and after real ones
                tc.update({K(1): 0, K(2): 0})
                for k in ks:
                    tc.add(K(k))
                    tc.update({K(k): 0}, **({K(1): 0} if self.name == "str" else {}))
            elif variant == "update_mappingproxy":
                import types
                tc.update(types.MappingProxyType({K(k): ks.count(k) for k in ks}))
            elif variant in ("update_ordereddict", "update_counter", "update_iteritems_only"):
                import collections
                pairs_ = []
                for k in ks:                       # the same additions as key -> count pairs, in order of first appearance
                    if K(k) not in [p_[0] for p_ in pairs_]:
                        pairs_.append([K(k), ks.count(k)])
                if variant == "update_ordereddict":
                    tc.update(collections.OrderedDict((a_, b_) for a_, b_ in pairs_))
                elif variant == "update_counter":
                    tc.update(collections.Counter(dict((a_, b_) for a_, b_ in pairs_)))
                else:
                    class OnlyIteritems:           # the older mapping protocol the method also understands
                        def iteritems(self_):
                            return iter([(a_, b_) for a_, b_ in pairs_])
                    tc.update(OnlyIteritems())
            else:
                tc.update([K(k) for k in ks])
            r = {"e": "ok", "v": []}
        except core.Hang:
            raise
        except Exception as ex:
            r = {"e": core.exc_name(ex), "v": []}
        return tc, {"r": r}

    def observe(self, tc, got, n=None, sparse=None):
        """Reads; views_ok = items/keys/values/elements/most_common/len/in/[] agree with get()."""
        n = n or tc._verif_n
        K, dec = self.K, self.dec
        o = {}
        try:
            o["total"] = tc.total
            keys = range(1, n + 1) if sparse is None else sparse
            o["rep"] = [[k, tc.get(K(k))] for k in keys]
            o["len"] = len(tc)
            o["common"] = tc.get_common_count()
            o["uncommon"] = tc.get_uncommon_count()
            for meth in ("items", "keys", "values", "most_common"):
                # the caller owns the lists it is handed: scribble on them, the reads below must not notice
                try:
                    lst_ = getattr(tc, meth)()
                    if isinstance(lst_, list):
                        lst_.append(("scribbled", -1))
                        lst_.reverse()
                except Exception:
                    pass
            items = tc.items()
            d = {}
            why = None
            for k, c in items:
                if k in d:
                    why = "duplicate key in items()"
                d[k] = c
            if why is None and sorted(map(dec, tc.keys())) != sorted(map(dec, d)):
                why = "keys() != keys of items()"
            if why is None and sorted(tc.values()) != sorted(d.values()):
                why = "values()"
            if why is None and len(d) != o["len"]:
                why = "len"
            if why is None and list(tc.iteritems()) != items:
                why = "iteritems"
            if why is None and (list(zip(tc.keys(), tc.values())) != items or list(zip(tc.iterkeys(), tc.itervalues())) != items):
                why = "keys()/values() are not aligned with items()"
            if why is None:
                absent = ("certainly", "absent")
                marker = object()
                try:
                    tc[absent]
                    why = "[absent] did not raise"
                except KeyError:
                    if tc.get(absent) != 0 or tc.get(absent, marker) is not marker or tc.get(absent, default=7) != 7 or len(tc) != o["len"] or absent in tc:
                        why = "get(absent, default) / len after a miss"
            if why is None and sum(d.values()) != o["common"]:
                why = "get_common_count != sum of counts"
            if why is None:
                for k, c in d.items():
                    if tc[k] != c or tc.get(k) != c or k not in tc or c <= 0:
                        why = "[]/get/in disagree with items()"
            if why is None and sparse is None:
                for k in range(1, n + 1):
                    if (K(k) in tc) != (K(k) in d) or (K(k) not in d and tc.get(K(k)) != 0):
                        why = "absent key"
            if why is None:
                el = {}
                for x in tc.elements():
                    el[x] = el.get(x, 0) + 1
                if el != d:
                    why = "elements()"
            if why is None:
                mc = tc.most_common()
                if sorted(mc, key=lambda p: (dec(p[0]))) != sorted(d.items(), key=lambda p: dec(p[0])):
                    why = "most_common() is not all pairs"
                elif [c for _, c in mc] != sorted(d.values(), reverse=True):
                    why = "most_common() not sorted by descending count"
                else:
                    if tc.most_common(None) != mc:
                        why = "most_common(None)"
                    for m in (1, 2, len(d) + 3, len(d), max(0, len(d) - 1), len(d) // 2):
                        top = tc.most_common(m)
                        if len(top) != min(m, len(d)) or [c for _, c in top] != sorted(d.values(), reverse=True)[:m] \
                                or any(d.get(k) != c for k, c in top):
                            why = "most_common(%d)" % m
                    if tc.most_common(0) != []:
                        why = "most_common(0)"
            if why is None and o["total"] and abs(tc.get_commonality() - o["common"] / o["total"]) > 1e-9:
                why = "get_commonality"
            o["views_ok"] = why is None
            o["views_why"] = why or ""
        except core.Hang:
            raise
        except Exception as ex:
            o["raised"] = core.exc_name(ex)
        return o

    def compare(self, o, pobs, st):
        """The promise of Lossy.tla, evaluated on the observation with the specification's true counts."""
        if "raised" in o:
            return "raised:" + o["raised"]
        truec, tp, tq = pobs["truec"], pobs["tp"], pobs["tq"]
        total = sum(truec)
        slack = pobs["slack"]
        if o["total"] != total:
            return "total"
        rep = dict((k, c) for k, c in o["rep"])
        for k in range(1, len(truec) + 1):
            if rep[k] > truec[k - 1]:
                return "over-count"
            if truec[k - 1] - rep[k] > slack:
                return "under-count-beyond-slack"
        if o["len"] * tp > 2 * tq:
            return "too-many-keys"
        if o["common"] + o["uncommon"] != total:
            return "common+uncommon"
        if o["common"] != sum(rep.values()):
            return "common"
        if not o["views_ok"]:
            return "views:" + o["views_why"]
        return None

    def signature(self, st, op, variant, got, obs, outs):
        return {}


def stream(op):
    if op["op"] == "add":
        return [op["k"]]
    if op["op"] == "update_keys":
        return list(op["ks"])
    if op["op"] == "update_counts":
        return [k for k, c in op["kc"] for _ in range(c)]
    return []


# ------------------------------------------------------------------ traces

THRESH = [(1, 2), (1, 3), (3, 10), (13, 50), (1, 4), (1, 5), (1, 7), (1, 10), (3, 5), (99, 100), (1, 100), (1, 1000)]
# thresholds given to the counter as floats whose exact reciprocal has a smaller floor than the fraction suggests
# (float(1/93) > 1/93, so floor(1/threshold) is 92): the specification gets the exact floor
FLOATY = {(1, 93): (1, 92), (1, 99): (1, 98), (1, 105): (1, 104)}


def adversarial(W, n_add):
    """Keys that just survive each compaction: two additions on entry, one per later bucket."""
    s = []
    live = []
    nxt = 1
    while len(s) < n_add:
        bucket = []
        for k in live:
            bucket.append(k)
        while len(bucket) + 2 <= W:
            bucket += [nxt, nxt]
            live.append(nxt)
            nxt += 1
        while len(bucket) < W:
            bucket.append(nxt)
            nxt += 1
        s += bucket[:W]
        live = live[:max(0, W - 2)]
    return s[:n_add]


def harmonic(W, levels, rng):
    """The adversary of the size bound: bucket j plants W // h keys with h hits each (h = levels + 1 - j), every one of
    them just surviving all compactions so far; then fresh keys. The lossy-counting mechanism itself then tracks about
    W * (1/2 + 1/3 + ...) + W keys."""
    s, nxt, first = [], 1, None
    for j in range(levels):
        hits = levels + 1 - j
        bucket = []
        for _ in range(W // hits):
            if first is None:
                first = nxt
            bucket += [nxt] * hits
            nxt += 1
        if first is None:
            first, nxt = nxt, nxt + 1
        bucket += [first] * (W - len(bucket))
        if rng.random() < 0.5:
            rng.shuffle(bucket)
        s += bucket
    for _ in range(W - 1):
        s.append(nxt)
        nxt += 1
    s.append(first)
    # keep going: later buckets re-hit a random part of what survives and plant new keys
    for _ in range(rng.randint(0, 3)):
        bucket = [rng.randint(1, nxt - 1) for _ in range(W // 2)]
        while len(bucket) < W:
            bucket.append(nxt)
            nxt += 1
        s += bucket
    return s


def tlc_adversaries(stats):
    """LossyBound.tla: TLC searches the margin-bag abstraction of the mechanism for a stream that makes it track more than
    2W keys. Each counterexample (W = 3..6) is turned into key additions; W = 2 must hold within its bounds."""
    import re
    r2 = tlc_must_pass(SPECDIR, "LossyBound.tla", "LossyBound_w2.cfg", workers=core.NCPU, timeout=900)
    stats.add_tlc(r2)
    out = []
    for W in (3, 4, 5, 6):
        r = core.tlc(SPECDIR, "LossyBound.tla", "LossyBound_w%d.cfg" % W, workers=core.NCPU, timeout=900)
        if r.ok or r.invariant_violated != "StaysSmall":
            if r.ok:
                stats.add_tlc(r)
                continue            # the mechanism model stays within the bound here: nothing to replay
            raise core.MachineryError("LossyBound W=%d: %s" % (W, r.out[-800:]))
        acts = re.findall(r'act = <<"(fresh|hit)", (\d+)>>', r.out)
        keys, stream, nxt = [], [], 1          # keys: [key, margin]
        for n_, (a, d) in enumerate(acts, 1):
            if a == "fresh":
                keys.append([nxt, 0])
                stream.append(nxt)
                nxt += 1
            else:
                k = next(k for k in keys if k[1] == int(d))
                k[1] += 1
                stream.append(k[0])
            if n_ % W == 0:
                keys = [[k, m - 1] for k, m in keys if m > 0]
        out.append((W, stream))
    stats.extra["size_bound_counterexamples_from_TLC"] = {str(W): len(st_) for W, st_ in out}
    return out


HARMONIC = [(1, 6), (3, 20), (1, 7), (1, 10), (1, 10), (1, 20), (1, 13)]


def record(n, seed, thorough, harmonic_only=False, given=None):
    rng = random.Random(seed)
    traces = []
    for t in range(len(given) if given else n):
        tp, tq = rng.choice(THRESH[:10] if not thorough else THRESH)
        if t < len(THRESH) and (thorough or THRESH[t][1] <= 100):
            tp, tq = THRESH[t]
        real_thr = tp / tq
        if not harmonic_only and not given and t % 11 == 10:
            (ftp, ftq), (tp, tq) = rng.choice(sorted(FLOATY.items()))
            real_thr = ftp / ftq
            from fractions import Fraction
            assert int(1 / Fraction(real_thr)) == tq
        if harmonic_only:
            tp, tq = HARMONIC[t % len(HARMONIC)]
        W = tq // tp
        drv = Driver(rng.choice(list(CONCS)))
        n_add = min(3000 if thorough else 600, 40 * W) if W <= 100 else (12000 if thorough else 2500)
        kind = "adversarial" if t % 3 == 0 else "harmonic" if t % 3 == 1 and W <= 100 else rng.choice(["uniform", "zipf", "few"])
        if harmonic_only:
            kind = "harmonic"
        if given:
            W, gstream = given[t]
            tp, tq, kind = 1, W, "harmonic"
        if kind == "adversarial":
            s = adversarial(W, n_add)
        elif kind == "harmonic":
            s = list(gstream) if given else harmonic(W, rng.randint(4, 9) if harmonic_only else rng.randint(2, 9), rng)
        elif kind == "uniform":
            s = [rng.randint(1, 3 * W + 3) for _ in range(n_add)]
        elif kind == "few":
            s = [rng.randint(1, max(2, W // 2 + 1)) for _ in range(n_add)]
        else:
            s = [min(int(rng.paretovariate(1.1)), 4 * W + 5) for _ in range(n_add)]
        nkeys = max(s)
        from boltons.cacheutils import ThresholdCounter
        thr_ = real_thr if not (harmonic_only or given) else tp / tq
        if not (harmonic_only or given) and t % 11 != 10:
            # the threshold as a Fraction / Decimal / positional argument now and then (the same number)
            from fractions import Fraction
            from decimal import Decimal
            if t % 7 == 3:
                thr_ = Fraction(tp, tq)
            elif t % 7 == 5 and tq in (2, 4, 5, 8, 10, 20, 25, 50, 100, 1000) and tp == 1:
                thr_ = Decimal(1) / Decimal(tq)
        tc = ThresholdCounter(threshold=thr_) if t % 2 else ThresholdCounter(thr_)
        evs = []
        i = 0
        step = 0
        while i < len(s):
            step += 1
            c = rng.random()
            if kind == "harmonic":
                c *= 0.9            # keep the stream as built: add / update(iterable) only
            if c < 0.8:
                op = {"op": "add", "k": s[i], "ks": [], "kc": []}
                i += 1
            elif c < 0.9:
                m = rng.randint(0, 4)
                op = {"op": "update_keys", "k": 0, "ks": s[i:i + m], "kc": []}
                i += m
            else:
                ks = s[i:i + rng.randint(1, 3)]
                i += len(ks)
                kc = []
                for k in ks:
                    if k not in [x[0] for x in kc]:
                        # now and then one key's count alone runs across one or several compactions
                        kc.append([k, rng.randint(0, 3) if W > 60 or rng.random() < 0.7 else rng.choice([W - 1, W, W + 1, 2 * W, 3 * W + 1])])
                op = {"op": "update_counts", "k": 0, "ks": [], "kc": kc}
            variant = rng.choice(drv.variants(op))
            if op["op"] in ("add", "update_keys") and rng.random() < 0.04:
                variant = "add_failing" if op["op"] == "add" else "update_failing"
            if op["op"] == "update_counts" and variant not in ("update_kw", "update_kwonly", "update_map_kw", "update_iter_kw"):
                variant = "update_map"
            # a step that takes the total across a multiple of W compacts: every key tracked before it is read afterwards
            n_adds = len(stream(op))
            crossing = n_adds and (tc.total + n_adds) // W != tc.total // W
            before_keys = [drv.dec(k_) for k_ in tc.keys()] if crossing else []
            tc, got = drv.step(tc, op, variant)
            full = (step % 25 == 0) or i >= len(s) or nkeys <= 12 or (kind == "harmonic" and nkeys <= 80)
            touched = sorted(set(stream(op)) | {k_ for k_ in before_keys if k_ > 0})
            o = drv.observe(tc, got, n=nkeys, sparse=None if full else touched)
            ev = {"op": op, "variant": variant, "r": got["r"], "full": full}
            if "raised" in o or got["r"]["e"] != "ok":
                ev.update({"total": -1, "len": 0, "common": 0, "uncommon": 0, "rep": [], "views_ok": False,
                           "why": o.get("raised", got["r"]["e"])})
            else:
                ev.update({k: o[k] for k in ("total", "len", "common", "uncommon", "rep", "views_ok")})
                ev["why"] = o["views_why"]
            evs.append(ev)
        traces.append({"tp": tp, "tq": tq, "n": nkeys, "kind": kind, "conc": drv.name, "ev": evs, "mech": kind == "harmonic" or nkeys <= 120})
    return traces


def main(tier, seed):
    t0 = time.time()
    stats, verdict = Stats(), Verdict(PROP, tier, seed)
    thorough = tier == "thorough"
    stats.add_tlc(tlc_must_pass(SPECDIR, "LossyMC.tla", "LossyMC_thorough.cfg" if thorough else "LossyMC.cfg",
                                workers=core.NCPU, timeout=2400))
    r = tlc_must_pass(SPECDIR, "LossyMC.tla", "LossyGen_thorough.cfg" if thorough else "LossyGen.cfg", workers=1, timeout=2400)
    stats.add_tlc(r)
    g = Graph(r)
    stats.extra["graph_states"], stats.extra["graph_edges"] = len(g.states), g.n_edges
    for cn in (list(CONCS) if thorough else ["str"]):
        core.replay_graph_generic(g, Driver(cn), verdict, stats)
    core.replay_walks(g, Driver("mixed"), verdict, stats, n_walks=2000 if thorough else 300, length=16, seed=seed)
    canary(stats)
    traces = record(60 if thorough else 24, seed, thorough) + record(28 if thorough else 7, seed + 5, thorough, harmonic_only=True)
    traces += record(0, seed + 6, thorough, given=tlc_adversaries(stats))
    core.validate_traces_generic(SPECDIR, "LossyTrace.tla", "LossyTrace.cfg", traces, stats, verdict, Driver.subject,
                                 shards=min(core.NCPU, len(traces)),
                                 sig_extra=lambda tr, ev: {"what": ("views:" + ev["why"]) if not ev["views_ok"] else "bounds"})
    stats.sample({"trace": {k: traces[0][k] for k in ("tp", "tq", "n", "kind")}, "first_events": traces[0]["ev"][:3]})
    rc = verdict.finish()
    core.write_evidence(PROP, tier, seed, stats.coverage(
        "graph: every canonical stream of the bounded lossy-counting model (each addition also through update() with an "
        "iterable / a mapping / keyword counts) replayed on ThresholdCounter, all reads judged after every addition against "
        "the property's bounds from the true counts; traces: adversarial (keys that just survive compaction), uniform, "
        "skewed streams with mixed add/update calls, judged by TLC. distinct_nontrivial = distinct (state, op) groups executed "
        "that changed the specification state.", True),
        ["thresholds: rationals listed in LossyMC.tla / c20.py", "judged against the property's bounds, not against the exact mechanism"],
        time.time() - t0, len(verdict.violations))
    return rc


def canary(stats):
    tr = record(1, 12345, False)[0]
    good = {k: tr[k] for k in ("tp", "tq", "n", "kind", "conc", "mech")}
    good["ev"] = tr["ev"][:30]
    bad = json.loads(json.dumps(good))
    for ev in bad["ev"][10:]:
        if ev["rep"]:
            ev["rep"][0][1] += 50
            break
    v = Verdict(PROP, "canary", 0)
    v.findings.entries = []
    s = Stats()
    core.validate_traces_generic(SPECDIR, "LossyTrace.tla", "LossyTrace.cfg", [good, bad], s, v, "canary", shards=1)
    if s.traces_accepted == 0:
        return
    if s.traces_accepted != 1 or len(v.violations) != 1:
        raise core.MachineryError("trace canary: an inflated reported count was not rejected")
    stats.extra["canary"] = "inflated reported count in a recorded trace rejected by TLC"


def replay(path):
    case = json.load(open(path))["case"]
    print(json.dumps(case, indent=1, default=str)[:6000])
    return 0
