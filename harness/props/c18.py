"""C18 - spooled files act the same in memory and on disk; MultiFileReader concatenates.

Specs: specs/file/FileModel.tla (+FileMC, FileTrace), MultiRead.tla (+MultiMC, MultiTrace).
"""
import io
import json
import os
import random
import shutil
import time

from harness import core
from harness.core import SPECS, Graph, Stats, Verdict, tlc_must_pass, GenericAdapter

PROP = "C18"
META = {
    "technique": "TLA+ file model (FileModel.tla: data + position, stdlib semantics) and concatenation model (MultiRead.tla) model-checked by TLC; every transition and random walks of the bounded model executed side by side on io.BytesIO/StringIO and on SpooledBytesIO/SpooledStringIO with max_size from 1 to huge; recorded histories validated by TLC",
    "level_text": "TLC checks position/line-structure invariants of the reference model and the each-unit-exactly-once law for all partitions into member files; every model transition is run on the stdlib object and on spooled objects that roll over at the first write, mid-history, and never, comparing every return value and tell/getvalue/len after each call; spec-guided walks and random histories (multi-byte text, tiny READ_CHUNK_SIZE) are validated by TLC.",
    "level_note": "Bounds in specs/file/*.cfg (contents up to 4-5 units, pieces with 1-4 byte characters and both line-ending characters). Only appending writes, as the property states. The stdlib object is run beside the spooled ones, so the TLA+ reference is itself bound to io.BytesIO/StringIO. No proof about the Python source.",
}
SPECDIR = SPECS / "file"
TEXT = {1: "a", 2: "é", 3: "€", 4: "\U0001F600", 10: "\n", 13: "\r"}
BYTES = {1: b"a", 2: b"b", 3: b"\xe2", 4: b"\x00", 10: b"\n", 13: b"\r"}
MAXSIZES = [1, 2, 4, 7, 10 ** 6]


class Driver(GenericAdapter):
    subject = "ioutils.Spooled*IO"

    def __init__(self, flavour, chunk=None, maxsizes=MAXSIZES):
        self.flavour = flavour
        self.name = flavour + ("" if chunk is None else "/chunk%d" % chunk)
        self.tab = TEXT if flavour == "text" else BYTES
        self.rev = {v: k for k, v in self.tab.items()}
        self.maxsizes = maxsizes
        from boltons import ioutils
        self.io = ioutils
        if chunk is not None:
            ioutils.READ_CHUNK_SIZE = chunk          # module attribute, set in this process only
        self.empty = "" if flavour == "text" else b""

    def enc(self, units):
        return self.empty.join(self.tab[u] for u in units)

    def dec(self, s):
        if self.flavour == "text":
            if not isinstance(s, str):
                return [-7]
            return [self.rev.get(c, -999) for c in s]
        if not isinstance(s, bytes):
            return [-7]
        return [self.rev.get(bytes([c]), -999) for c in s]

    def labels(self):
        return ["stdlib"] + ["spooled/max_size=%d" % m for m in self.maxsizes]

    def fresh(self, st):
        if self.flavour == "text":
            return [io.StringIO()] + [self.io.SpooledStringIO(max_size=m) for m in self.maxsizes]
        return [io.BytesIO()] + [self.io.SpooledBytesIO(max_size=m) for m in self.maxsizes]

    spell = 0           # which of the equivalent spellings of a call is used (set per step, the same for every object)

    def one(self, f, op, is_std):
        n = op["op"]
        sp = self.spell
        try:
            if n == "write":
                data = self.enc(op["piece"])
                if sp % 5 == 3 and len(op["piece"]) >= 2:
                    # the same data through writelines, in two pieces (and an empty one): no separator is added
                    cut = len(op["piece"]) // 2
                    f.writelines([self.enc(op["piece"][:cut]), self.empty, self.enc(op["piece"][cut:])])
                    v = [len(op["piece"])]
                else:
                    if sp % 5 == 4:
                        if f.write(self.empty) != 0:          # an empty write changes nothing and reports 0
                            return {"e": "ok", "v": [-2]}
                    w_ = f.write(data)
                    v = [w_ if isinstance(w_, int) and not isinstance(w_, bool) else -1]       # -1: something that is not a count
            elif n == "read":
                v = self.dec((f.read() if sp % 3 == 0 else f.read(-1) if sp % 3 == 1 else f.read(None)) if op["n"] == -1 else f.read(op["n"]))
            elif n == "readline":
                lim = op.get("n", -1)
                if lim == -1:
                    v = self.dec(f.readline() if sp % 3 == 0 and not op.get("explicit") else f.readline(-1) if sp % 3 == 1 else f.readline(None))
                else:
                    v = self.dec(f.readline(lim))
            elif n == "next":
                v = self.dec(f.next() if (not is_std and sp % 2 and hasattr(f, "next")) else next(f))
            elif n == "readlines":
                v = [self.dec(x) for x in (f.readlines() if sp % 4 == 0 else f.readlines(0) if sp % 4 == 1 else f.readlines(-1) if sp % 4 == 2 else f.readlines(None))]
            elif n == "iterate":
                v = [self.dec(x) for x in f]
            elif n == "seek":
                v = [f.seek(op["n"]) if sp % 3 == 0 else f.seek(op["n"], 0) if sp % 3 == 1 else f.seek(op["n"], os.SEEK_SET)]
            elif n == "seek_end":
                v = [f.seek(0, 2)]
            elif n == "seek_cur":
                v = [f.seek(op["n"], 1)]
            elif n == "seek_back_from_end":
                v = [f.seek(-op["n"], 2)]
            elif n == "tell":
                v = [f.pos if (not is_std and sp % 2 and hasattr(type(f), "pos")) else f.tell()]
            elif n == "getvalue":
                v = self.dec(f.buf if (not is_std and sp % 2 and hasattr(type(f), "buf")) else f.getvalue())
            elif n == "len":
                v = [len(f.getvalue()) if is_std else (f.len if sp % 2 and hasattr(type(f), "len") else len(f))]
            else:
                raise core.MachineryError("op " + n)
            return {"e": "ok", "v": v}
        except (core.Hang, core.MachineryError):
            raise
        except Exception as ex:
            return {"e": core.exc_name(ex), "v": []}

    def step(self, fs, op, variant):
        self.spell += 1
        rs = [self.one(f, op, i == 0) for i, f in enumerate(fs)]
        return fs, {"r": rs[0], "all": rs}

    def match(self, got, pred):
        for lab, r in zip(self.labels(), got["all"]):
            if r != pred["r"]:
                return "result@" + lab
        return None

    quiet = False       # True: observe with tell() only (getvalue / len reposition the stream and reset the decoder)

    def obs1(self, f, is_std, quiet=None):
        o = {}
        try:
            o["tell"] = f.tell()
            if self.quiet if quiet is None else quiet:
                return o
            o["value"] = self.dec(f.getvalue())
            o["tell_after_getvalue"] = f.tell()
            o["len"] = len(f.getvalue()) if is_std else len(f)
            o["tell_after_len"] = f.tell()
        except core.Hang:
            raise
        except Exception as ex:
            o["raised"] = core.exc_name(ex)
        return o

    def observe(self, fs, got):
        return {"per": [self.obs1(f, i == 0) for i, f in enumerate(fs)]}

    def signature(self, st, op, variant, got, obs, outs):
        if self.flavour != "text":
            return {"flavour": self.flavour}
        exp = outs[0][0]["r"]
        return {"flavour": "text", "cr_split": cr_split_explains(st, op, got["all"][1:], exp) and got["all"][0] == exp}

    def compare(self, obs, pobs, st):
        for lab, o in zip(self.labels(), obs["per"]):
            if "raised" in o:
                return "reads-raised:%s@%s" % (o["raised"], lab)
            d = core.first_diff(o, pobs if len(o) > 1 else {"tell": pobs["tell"]})
            if d:
                return "%s@%s" % (d, lab)
        return None


def cr_lines(data, pos):
    """Line structure if "\\r" (and "\\r\\n" as one) also ended lines, as str.splitlines does."""
    out = []
    while pos < len(data):
        i = pos
        while i < len(data):
            if data[i] == 10:
                i += 1
                break
            if data[i] == 13:
                i += 2 if i + 1 < len(data) and data[i + 1] == 10 else 1
                break
            i += 1
        out.append(data[pos:i])
        pos = i
    return out


def cr_split_explains(st, op, results, expected):
    """True iff every deviating result is exactly what splitting lines at a bare "\\r" would give."""
    if not st or 13 not in st["data"]:
        return False
    ls = cr_lines(st["data"], st["pos"])
    n = op["op"]
    if n in ("readline", "next"):
        alt = {"e": "ok", "v": ls[0]} if ls else None
    elif n in ("readlines", "iterate"):
        alt = {"e": "ok", "v": ls}
    else:
        return False
    if alt is None or alt == expected:
        return False
    return all(r == expected or r == alt for r in results) and any(r == alt for r in results)


# ------------------------------------------------------------------ traces (single objects, larger contents)

def record(n, length, seed):
    rng = random.Random(seed)
    traces = []
    for t in range(n):
        flavour = rng.choice(["text", "text", "bytes"])
        chunk = rng.choice([None, 1, 2, 3, 5])
        ms = rng.choice([1, 2, 3, 5, 8, 13, 21, 40, 10 ** 6])
        drv = Driver(flavour, chunk, [ms])
        f = drv.fresh(None)[1 if rng.random() < 0.85 else 0]
        is_std = not hasattr(f, "rollover")
        evs = []
        size = 0
        quiet = t % 2 == 1
        for i in range(length):
            c = rng.random()
            units = list(drv.tab)
            if c < 0.3 and size < 40:
                op = {"op": "seek_end", "n": 0, "piece": []}
                f_, r_ = f, drv.one(f, op, is_std)
                evs.append({"op": op, "r": r_, "obs": drv.obs1(f, is_std, quiet), "quiet": quiet})
                piece = [rng.choice(units + [10, 1, 1]) for _ in range(rng.randint(1, 6))]
                if rng.random() < 0.04 and size < 20:
                    # one long stretch without a line break (longer than the codecs reader's 72-byte first guess)
                    piece = [rng.choice([1, 1, 2, 3, 13] if flavour == "text" else [1, 2, 3, 4, 13]) for _ in range(rng.randint(80, 160))] + [10, 1]
                    size -= len(piece) - 6          # does not count against the budget of ordinary pieces
                op = {"op": "write", "n": 0, "piece": piece}
                size += len(piece)
            elif c < 0.5:
                op = {"op": "read", "n": rng.choice([-1, 0, 1, 2, 3, 7]), "piece": []}
            elif c < 0.65:
                op = {"op": "seek", "n": rng.randint(0, size), "piece": []}
                # io.StringIO knows no relative seeks but the no-move one; for bytes every spelling of a position is compared
                if rng.random() < 0.35:
                    try:
                        cur = f.tell()
                    except Exception:
                        cur = 0
                    if flavour == "bytes" and 0 <= cur <= size:
                        tgt_ = rng.randint(0, size)
                        op = rng.choice([{"op": "seek_cur", "n": tgt_ - cur, "piece": []}, {"op": "seek_back_from_end", "n": size - tgt_, "piece": []}])
                    else:
                        op = {"op": "seek_cur", "n": 0, "piece": []}
            else:
                op = {"op": rng.choice(["readline", "next", "readlines", "iterate", "tell", "getvalue", "len", "len", "readline"]), "n": 0, "piece": []}
                if op["op"] == "readline":
                    op["n"] = rng.choice([-1, -1, -1, 0, 1, 2, 5])       # a limit, 0 included; -1 = none given
            drv.spell = rng.randint(0, 59)
            r_ = drv.one(f, op, is_std)
            last = i == length - 1
            evs.append({"op": op, "r": r_, "obs": drv.obs1(f, is_std, quiet and not last), "quiet": quiet and not last})
        traces.append({"flavour": flavour, "chunk": chunk or 0, "max_size": ms, "stdlib": is_std, "ev": evs})
    from boltons import ioutils
    ioutils.READ_CHUNK_SIZE = 21333
    return traces


BAD_OBS = {"tell": -7, "value": [-7], "tell_after_getvalue": -7, "len": -7, "tell_after_len": -7}


def clean(traces):
    for tr in traces:
        for ev in tr["ev"]:
            ev.setdefault("quiet", False)
            if "raised" in ev["obs"] or set(ev["obs"]) != ({"tell"} if ev["quiet"] else set(BAD_OBS)):
                ev["why"] = ev["obs"].get("raised", "shape")
                ev["obs"] = dict(BAD_OBS)
            v = ev["r"]["v"]
            nested = ev["op"]["op"] in ("readlines", "iterate")
            if nested and not all(isinstance(x, list) for x in v):
                ev["r"]["v"] = [[-7]]
    return traces


# ------------------------------------------------------------------ MultiFileReader

def multi_traces(n, seed):
    from boltons.ioutils import MultiFileReader
    rng = random.Random(seed)
    out = []
    for t in range(n):
        flavour = rng.choice(["text", "bytes"])
        tab = TEXT if flavour == "text" else BYTES
        drv = Driver(flavour, None, [10 ** 6])
        parts = [[rng.choice(list(tab)) for _ in range(rng.randint(0, 4))] for _ in range(rng.randint(1, 4))]
        kind = rng.choice(["stdlib", "spooled", "file", "mixed"])
        files = []
        tmpd = None
        for pi, p in enumerate(parts):
            data = drv.enc(p)
            k_ = kind if kind != "mixed" else ["stdlib", "spooled", "file"][(pi + t) % 3]
            if k_ == "stdlib":
                files.append(io.StringIO(data) if flavour == "text" else io.BytesIO(data))
            elif k_ == "file":
                # real files on disk: binary, or text opened with an explicit encoding
                import tempfile
                tmpd = tmpd or tempfile.mkdtemp(prefix="c18mfr-")
                path_ = os.path.join(tmpd, "part%d" % pi)
                with open(path_, "wb") as fh_:
                    fh_.write(data.encode("utf-8") if flavour == "text" else data)
                files.append(open(path_, "r", encoding="utf-8", newline="") if flavour == "text" else open(path_, "rb"))
            else:
                f = (drv.io.SpooledStringIO if flavour == "text" else drv.io.SpooledBytesIO)(max_size=rng.choice([1, 100]))
                f.write(data)
                f.seek(0)
                files.append(f)
        try:
            mfr = MultiFileReader(*files)
        except Exception as ex:
            out.append({"parts": parts, "flavour": flavour, "kind": kind, "ev": [{"op": {"op": "read", "n": -1, "piece": []}, "r": {"e": core.exc_name(ex), "v": []}}]})
            continue
        evs = []
        for i in range(rng.randint(2, 10)):
            c = rng.random()
            op = {"op": "seek0", "n": 0, "piece": []} if c < 0.25 else {"op": "read", "n": rng.choice([-1, -1, 1, 1, 2, 3, 5]), "piece": []}
            try:
                if op["op"] == "seek0":
                    mfr.seek(0)
                    r = {"e": "ok", "v": []}
                else:
                    r = {"e": "ok", "v": drv.dec(mfr.read() if op["n"] == -1 else mfr.read(op["n"]))}
            except Exception as ex:
                r = {"e": core.exc_name(ex), "v": []}
            evs.append({"op": op, "r": r})
        out.append({"parts": parts, "flavour": flavour, "kind": kind, "ev": evs})
        for f_ in files:
            try:
                f_.close()
            except Exception:
                pass
        if tmpd:
            shutil.rmtree(tmpd, ignore_errors=True)
    return out


def main(tier, seed):
    t0 = time.time()
    stats, verdict = Stats(), Verdict(PROP, tier, seed)
    thorough = tier == "thorough"
    stats.add_tlc(tlc_must_pass(SPECDIR, "FileMC.tla", "FileMC.cfg", workers=core.NCPU, timeout=1500))
    stats.add_tlc(tlc_must_pass(SPECDIR, "MultiMC.tla", "MultiMC.cfg", workers=core.NCPU, timeout=1500))
    r = tlc_must_pass(SPECDIR, "FileMC.tla", "FileGen_thorough.cfg" if thorough else "FileGen.cfg", workers=1, timeout=2400, heap="8g")
    stats.add_tlc(r)
    g = Graph(r)
    stats.extra["graph_states"], stats.extra["graph_edges"] = len(g.states), g.n_edges
    for fl, chunk in ((("text", None), ("bytes", None), ("text", 2)) if not thorough else
                      (("text", None), ("bytes", None), ("text", 1), ("text", 2), ("text", 3))):
        drv = Driver(fl, chunk)
        core.replay_graph_generic(g, drv, verdict, stats)
        Driver(fl, chunk)      # re-assert the chunk size in this process for the walks
        core.replay_walks(g, drv, verdict, stats, n_walks=3000 if thorough else 400, length=14, seed=seed)
        drv.quiet = True          # the same walks without the intrusive reads between the calls
        core.replay_walks(g, drv, verdict, stats, n_walks=3000 if thorough else 400, length=14, seed=seed + 1)
        drv.quiet = False
    from boltons import ioutils
    ioutils.READ_CHUNK_SIZE = 21333
    canary(stats)
    traces = clean(record(3000 if thorough else 400, 40, seed))
    core.validate_traces_generic(SPECDIR, "FileTrace.tla", "FileTrace.cfg", traces, stats, verdict, Driver.subject,
                                 sig_extra=lambda tr, ev, p: {"flavour": tr["flavour"], "stdlib": tr["stdlib"], "what": "trace-rejected:" + ev.get("why", ""),
                                                              "cr_split": tr["flavour"] == "text" and not tr["stdlib"] and bool(p.get("exp")) and
                                                              cr_split_explains(p.get("st"), ev["op"], [ev["r"]], p["exp"][0]["r"])})
    mt = multi_traces(6000 if thorough else 1500, seed)
    core.validate_traces_generic(SPECDIR, "MultiTrace.tla", "MultiTrace.cfg", mt, stats, verdict, "ioutils.MultiFileReader",
                                 sig_extra=lambda tr, ev: {"members": tr["kind"]})
    stats.sample({"spooled_trace": {k: traces[0][k] for k in ("flavour", "chunk", "max_size")}, "first_events": traces[0]["ev"][:3]})
    stats.sample({"multi_trace": mt[0]})
    rc = verdict.finish()
    core.write_evidence(PROP, tier, seed, stats.coverage(
        "graph: every (state, op) group of the bounded file model executed on io.BytesIO/StringIO and on Spooled*IO with max_size "
        "1,2,4,7,10^6 side by side from fresh objects, plus spec-guided random walks on one object set, comparing each return value "
        "and tell/getvalue/tell/len/tell after each call; traces: random histories with contents up to 40 units, max_size 1..10^6, "
        "READ_CHUNK_SIZE 1..5 or shipped, and MultiFileReader histories over all member kinds, validated by TLC. distinct_nontrivial = "
        "distinct (state, op) groups that changed state or raised.", True),
        ["bounds: see specs/file/*.cfg", "writes only at end of data (property's restriction)", "READ_CHUNK_SIZE is lowered on the imported module by the harness"],
        time.time() - t0, len(verdict.violations))
    return rc


def canary(stats):
    tr = clean(record(2, 12, 777))
    bad = json.loads(json.dumps(tr[1]))
    bad["ev"][-1]["obs"]["tell"] += 1
    v = Verdict(PROP, "canary", 0)
    v.findings.entries = []
    s = Stats()
    core.validate_traces_generic(SPECDIR, "FileTrace.tla", "FileTrace.cfg", [tr[0], bad], s, v, "canary", shards=1)
    if s.traces_accepted == 0:
        return
    if s.traces_accepted != 1 or len(v.violations) != 1:
        raise core.MachineryError("trace canary: an altered tell() was not rejected")
    stats.extra["canary"] = "altered tell() in a recorded trace rejected by TLC"


def replay(path):
    case = json.load(open(path))["case"]
    print(json.dumps(case, indent=1, default=str)[:6000])
    return 0
