"""C12 - BufferedSocket framing is independent of chunking; no byte lost or duplicated.

Specs: specs/sock/BufSock.tla (reference + conservation), BufSockMC (receive loops under every
chunking / timeout placement, negative control), BufSockTrace (validation of recorded sessions).
"""
import itertools
import json
import random
import socket
import time

from harness import core
from harness.core import SPECS, Stats, Verdict, tlc, tlc_must_pass

PROP = "C12"
META = {
    "technique": "TLA+ spec of the receive loops (one socket.recv per step, every chunking and timeout placement) model-checked by TLC against the all-at-once reference, with an off-by-one rolling-offset negative control; real BufferedSocket / NetstringSocket sessions over a scripted socket (chunk plans down to one byte, timeouts in every gap, partial sends) validated by TLC (BufSockTrace.tla)",
    "level_text": "TLC proves on the bounded model that recv_until / recv_size return the all-at-once result and conserve every byte under all chunkings and timeout placements, and that an off-by-one search offset would not; the real classes are driven over a scripted socket through enumerated and random delivery plans, every call attempt (including Timeouts, then retried) is logged with the buffer and delivery count, and TLC checks each against the reference outcome and byte conservation; same for the send side and netstring framing.",
    "level_note": "Streams up to 5-6 bytes in the model, up to 40 in sessions; delimiters of 1 and 2 bytes; recvsize 1..4 or default. Timeouts are scripted exceptions of the fake socket (no wall clock); bsock timeouts None or 1000 s so the code's own deadline arithmetic never fires. Netstrings are exercised under chunking only (the statement does not promise resumability of read_ns after a Timeout). No proof about the Python source.",
}
SPECDIR = SPECS / "sock"
A, D1, D2 = 1, 8, 9
BMAP = {1: b"a", 2: b"b", 8: b"\r", 9: b"\n", 3: b"\x00", 4: b"\xff", 5: b"0", 6: b" ", 7: b"\x80"}
RMAP = {v[0]: k for k, v in BMAP.items()}


def enc(units):
    return b"".join(BMAP[u] for u in units)


def dec(b):
    if not isinstance(b, (bytes, bytearray)):
        return [-7]
    return [RMAP.get(x, -999) for x in b]


class FakeSock:
    """Serves recv() from a delivery plan: an int n delivers up to n bytes, 'T' raises socket.timeout;
    when the plan is exhausted everything left is delivered, then b'' (end of stream). send() accepts
    bytes per a send plan in the same way."""

    def __init__(self, stream=b"", plan=(), splan=()):
        self.stream, self.pos = stream, 0
        self.plan, self.splan = list(plan), list(splan)
        self.wire = b""
        self.timeouts = []

    def gettimeout(self):
        return None

    def settimeout(self, t):
        self.timeouts.append(t)

    def recv(self, bufsize, flags=0):
        n = bufsize
        if self.plan:
            item = self.plan.pop(0)
            if item == "T":
                raise socket.timeout()
            if item == "E":          # a non-blocking socket with nothing to read yet
                raise BlockingIOError(11, "Resource temporarily unavailable")
            if item == "R":          # any other socket error surfacing from recv()
                raise ConnectionResetError(104, "Connection reset by peer")
            n = min(item, bufsize)
        data = self.stream[self.pos:self.pos + n]
        self.pos += len(data)
        return data

    def send(self, data, flags=0):
        n = len(data)
        if self.splan:
            item = self.splan.pop(0)
            if item == "T":
                raise socket.timeout()
            n = max(1, min(item, len(data))) if data else 0
        self.wire += data[:n]
        return n

    def recv_into(self, buffer, nbytes=0, flags=0):
        data = self.recv(nbytes or len(buffer))
        buffer[:len(data)] = data
        return len(data)

    def sendall(self, data, flags=0):
        while data:
            n = self.send(data)
            data = data[n:]

    def fileno(self):
        return -1

    def close(self):
        pass

    def shutdown(self, how):
        pass


class Clock:
    """Stands in for the `time` module inside socketutils: the n-th call of time() jumps far ahead, so the
    code's own deadline arithmetic (cur_timeout <= 0 -> Timeout) fires at a chosen loop iteration."""

    def __init__(self, jump_at):
        self.n, self.t, self.jump_at = 0, 1000.0, jump_at

    def time(self):
        self.n += 1
        if self.jump_at is not None and self.n == self.jump_at:
            self.t += 1e6
        return self.t

    def use(self):
        from boltons import socketutils as su
        su.time = self
        return self

    @staticmethod
    def restore():
        import time as real
        from boltons import socketutils as su
        su.time = real


def exc(ex):
    n = core.exc_name(ex)
    return n


# outcomes after which the caller simply tries the same call again: nothing may have been lost
INTERRUPTED = ("Timeout", "BlockingIOError", "ConnectionResetError")
PLANCODE = {"T": 0, "E": -1, "R": -2}


def run_call(bs, call, to):
    from boltons import socketutils as su
    c = call["c"]
    kw = {} if to == "default" else {"timeout": to}
    try:
        if call.get("omit_maxsize"):
            pass            # the limit in force is the socket's own maxsize (recorded in call["maxsize"] for the specification)
        elif call.get("none_maxsize"):
            kw = dict(kw, maxsize=None)      # an explicit None: no limit for this call, whatever the socket's own limit is
        elif c in ("recv_until", "recv_close"):
            kw = dict(kw, maxsize=call["maxsize"])
        if c == "recv_until":
            v = bs.recv_until(enc(call["delim"]), with_delimiter=call["withd"], **kw)
        elif c == "recv_size":
            v = bs.recv_size(call["size"], **kw)
        elif c == "peek":
            v = bs.peek(call["size"], **kw)
        elif c == "recv_close":
            v = bs.recv_close(**kw)
        elif c == "recv":
            v = bs.recv(call["size"], **kw)
        else:
            raise core.MachineryError(c)
        return {"e": "ok", "v": dec(v)}
    except core.MachineryError:
        raise
    except su.Timeout:
        return {"e": "Timeout", "v": []}
    except su.ConnectionClosed:
        return {"e": "ConnectionClosed", "v": []}
    except su.MessageTooLong:
        return {"e": "MessageTooLong", "v": []}
    except Exception as ex:
        return {"e": exc(ex), "v": []}


def gen_call(rng, n):
    c = rng.choice(["recv_until", "recv_until", "recv_until", "recv_size", "recv_size", "peek", "recv_close", "recv"])
    call = {"c": c, "size": 0, "delim": [], "maxsize": 0, "withd": False}
    if c == "recv_until":
        # one and two bytes, self-overlapping, three bytes, and one that contains a payload byte
        call["delim"] = rng.choice([[D1], [D1, D2], [D2], [D1, D1], [D1, D2, D1], [A, D1], [D2, D2, D2]])
        call["maxsize"] = rng.choice([1, 2, 3, 4, n + 2, 1000])
        call["withd"] = rng.random() < 0.4
    elif c in ("recv_size", "peek", "recv"):
        call["size"] = rng.choice([1, 1, 2, 3, 4, max(1, n), n + 1])      # (size 0: the statement does not say what a zero-byte read at end of stream is)
    else:
        call["maxsize"] = rng.choice([1, 2, 3, n, n + 1, 1000])
    return call


def recv_session(rng, maxlen):
    from boltons import socketutils as su
    n = rng.randint(0, maxlen)
    stream = [rng.choice([A, A, 2, D1, D1, D2] + ([3, 4, 5, 6, 7] if n % 3 == 0 else [])) for _ in range(n)]     # every third stream: NUL, high bytes, a digit, a blank too
    plan = []
    left = n
    style = rng.choice(["bytewise", "random", "whole", "random", "larger"])
    while left > 0:
        if rng.random() < 0.25:
            plan.append(rng.choice(["T", "T", "T", "E", "E", "R"]))
            continue
        k = 1 if style == "bytewise" else (left if style == "whole" else rng.randint(1, min(4, left)) if style != "larger" else rng.randint(1, left))
        plan.append(k)
        left -= k
    if rng.random() < 0.3:
        plan.append("T")
    recvsize = rng.choice([1, 2, 3, 4, None] + ([7, 16] if style == "larger" else []))
    to = rng.choice([None, 1000.0, "default"])
    jump = rng.choice([None, None, rng.randint(1, 12)])
    if jump is not None:
        to = rng.choice([1000.0, "default"])
    fs = FakeSock(enc(stream), plan)
    kw = {} if recvsize is None else {"recvsize": recvsize}
    # the socket's own maxsize: small ones make "limit of this call" and "limit of the socket" differ
    inst_max = rng.choice([None, None, 1, 2, 3, 5])
    if inst_max is not None:
        kw["maxsize"] = inst_max
    bs = su.BufferedSocket(fs, timeout=None if to is None else 1000.0, **kw)
    evs = []
    Clock(jump).use()
    try:
        for _ in range(rng.randint(1, 5) if n < 25 else rng.randint(4, 14)):
            call = gen_call(rng, n)
            if inst_max is not None and call["c"] in ("recv_until", "recv_close") and rng.random() < 0.35:
                call["omit_maxsize"], call["maxsize"] = True, inst_max
            elif inst_max is not None and call["c"] in ("recv_until", "recv_close") and rng.random() < 0.3:
                call["none_maxsize"], call["maxsize"] = True, 10 ** 6
            for attempt in range(12):
                if attempt and rng.random() < 0.3:
                    # after an interruption the caller asks for something else (another delimiter, another call): nothing of
                    # the interrupted attempt - search offsets, collected chunks - may show in it
                    call = gen_call(rng, n)
                    if inst_max is not None and call["c"] in ("recv_until", "recv_close") and rng.random() < 0.35:
                        call["omit_maxsize"], call["maxsize"] = True, inst_max
                r = run_call(bs, call, to)
                try:
                    rb = dec(bs.getrecvbuffer())
                except Exception:
                    rb = [-7]
                evs.append({"call": call, "r": r, "rbuf": rb, "pos": fs.pos})
                if r["e"] not in INTERRUPTED:
                    break
    finally:
        Clock.restore()
    return {"kind": "recv", "stream": stream, "recvsize": recvsize or 0, "plan": [PLANCODE.get(p, p) for p in plan], "ev": evs,
            "deadline_jump_at": jump or 0}


def send_session(rng):
    from boltons import socketutils as su
    splan = []
    for _ in range(rng.randint(0, 8)):
        splan.append("T" if rng.random() < 0.25 else rng.randint(1, 4))
    fs = FakeSock(b"", (), splan)
    jump = rng.choice([None, None, rng.randint(1, 10)])
    bs = su.BufferedSocket(fs, timeout=1000.0 if jump else rng.choice([None, 1000.0]))
    evs = []
    Clock(jump).use()
    for _ in range(rng.randint(1, 6)):
        c = rng.choice(["send", "send", "sendall", "buffer", "flush"])
        data = [] if c == "flush" else [rng.choice([A, 2, D1]) for _ in range(rng.randint(0, 5))]
        first = True
        retry_call, retry_data = "flush", []
        for attempt in range(12):
            try:
                if c == "buffer" and first:
                    bs.buffer(enc(data))
                    r = {"e": "ok", "v": []}
                elif c in ("send", "sendall") and first:
                    ret = getattr(bs, c)(enc(data))
                    r = {"e": "ok", "v": [ret if isinstance(ret, int) else -7]}
                else:
                    # after a Timeout the unsent remainder sits in the send buffer: flush it, or go straight on with
                    # the next send / sendall / buffer of more data behind it
                    retry = "flush" if first else rng.choice(["flush", "flush", "send", "sendall", "buffer"])
                    more = [] if retry == "flush" else [rng.choice([A, 2, D1]) for _ in range(rng.randint(0, 3))]
                    retry_call, retry_data = retry, more
                    if retry == "flush":
                        bs.flush()
                    elif retry == "buffer":
                        bs.buffer(enc(more))
                    else:
                        getattr(bs, retry)(enc(more))
                    r = {"e": "ok", "v": []}
            except su.Timeout:
                r = {"e": "Timeout", "v": []}
            except Exception as ex:
                r = {"e": exc(ex), "v": []}
            evs.append({"call": c if first else retry_call, "data": data if first else retry_data, "r": r, "wire": dec(fs.wire),
                        "sbuf": dec(bs.getsendbuffer())})
            if not first and retry_call == "buffer" and r["e"] == "ok":
                r = dict(r, e="Timeout")        # (buffering sends nothing: keep retrying until a sending call completes)
            first = False
            if r["e"] != "Timeout":
                break
    Clock.restore()
    return {"kind": "send", "stream": [], "ev": evs, "deadline_jump_at": jump or 0}


def ns_session(rng):
    from boltons import socketutils as su
    alphabet = [48, 49, 50, 57, 58, 44, 97, 10, 0, 128, 255]     # digits, ':', ',', 'a', newline (payloads that look like framing), NUL, high bytes
    # payload lengths around the points where the size prefix gains a digit; the reader's instance maxsize, setmaxsize()
    # and the per-call maxsize vary, always admitting the payload (what happens to an over-long message is not stated)
    payloads = [[rng.choice(alphabet) for _ in range(rng.choice([0, 1, 2, 3, 3, 9, 10, 11, 12, 99, 100, 101, 130]) if rng.random() < 0.5 else rng.randint(0, 3))]
                for _ in range(rng.randint(1, 4))]
    if rng.random() < 0.04:
        # a message as long as the default maximum allows (its size prefix has the most digits it can have)
        payloads = [[rng.choice(alphabet) for _ in range(rng.choice([su.DEFAULT_MAXSIZE, su.DEFAULT_MAXSIZE - 1]))]] + payloads[:1]
    w = FakeSock(b"", (), [rng.randint(1, 5) for _ in range(rng.randint(0, 6))])
    nsw = su.NetstringSocket(w, timeout=None)
    inst_max = rng.choice([None, None, 5, 9, 12, 64, 99, 1000])
    set_max = rng.choice([None, None, None, 9, 99, 150])
    limits, percall = [], []
    for p_ in payloads:
        cur = set_max if set_max is not None else (inst_max if inst_max is not None else su.DEFAULT_MAXSIZE)
        pc = rng.choice([None, None, 9, 10, 99, 100, 150, 1000, 4096, 100000])
        if (pc if pc is not None else cur) < len(p_):
            pc = rng.choice([m for m in (10, 99, 100, 150, 1000, 4096, 100000) if m >= len(p_)])
        percall.append(pc)
        limits.append(pc if pc is not None else cur)
    try:
        for p in payloads:
            nsw.write_ns(bytes(p))
        wire = w.wire
    except Exception as ex:
        return {"kind": "ns", "stream": [], "payloads": payloads, "wire": [-7], "read": [], "after": {"e": "write:" + exc(ex), "v": []}, "ev": [], "limits": limits}
    plan = []
    left = len(wire)
    style = rng.choice(["bytewise", "random", "whole"])
    if len(wire) > 5000:
        style = rng.choice(["whole", "big-chunks"])
    while left > 0:
        k = 1 if style == "bytewise" else (left if style == "whole" else rng.randint(1, min(4000, left)) if style == "big-chunks" else rng.randint(1, min(5, left)))
        plan.append(k)
        left -= k
    r = FakeSock(wire, plan)
    nsr = su.NetstringSocket(r, timeout=None) if inst_max is None else su.NetstringSocket(r, timeout=None, maxsize=inst_max)
    if set_max is not None:
        nsr.setmaxsize(set_max)
    read = []
    after = {"e": "ok", "v": []}
    try:
        for pc in percall:
            read.append(list(nsr.read_ns() if pc is None else nsr.read_ns(maxsize=pc)))
        try:
            nsr.read_ns()
        except su.ConnectionClosed:
            after = {"e": "ConnectionClosed", "v": []}
        except Exception as ex:
            after = {"e": exc(ex), "v": []}
    except Exception as ex:
        after = {"e": "read:" + exc(ex), "v": []}
    return {"kind": "ns", "stream": [], "payloads": payloads, "wire": list(wire), "read": read, "after": after, "ev": [],
            "plan": plan, "limits": limits, "reader_maxsize": [inst_max or 0, set_max or 0, [pc or 0 for pc in percall]]}


def exhaustive_sessions(maxlen):
    """Every stream up to maxlen over {a, d1, d2}, every composition into chunks, a timeout in every single gap,
    for a fixed battery of calls."""
    from boltons import socketutils as su
    out = []
    battery = [
        [{"c": "recv_until", "size": 0, "delim": [D1, D2], "maxsize": 1000, "withd": False}, {"c": "recv_size", "size": 1, "delim": [], "maxsize": 0, "withd": False}],
        [{"c": "recv_until", "size": 0, "delim": [D1], "maxsize": 2, "withd": True}, {"c": "recv_close", "size": 0, "delim": [], "maxsize": 1000, "withd": False}],
        [{"c": "recv_size", "size": 2, "delim": [], "maxsize": 0, "withd": False}, {"c": "recv_until", "size": 0, "delim": [D1, D2], "maxsize": 3, "withd": False}],
        [{"c": "peek", "size": 2, "delim": [], "maxsize": 0, "withd": False}, {"c": "recv", "size": 1, "delim": [], "maxsize": 0, "withd": False},
         {"c": "recv_until", "size": 0, "delim": [D2], "maxsize": 1000, "withd": False}],
    ]
    for n in range(0, maxlen + 1):
        for stream in itertools.product([A, D1, D2], repeat=n):
            comps = []
            for cuts in itertools.product([0, 1], repeat=max(0, n - 1)):
                comp, cur = [], 1
                for c in cuts:
                    if c:
                        comp.append(cur)
                        cur = 1
                    else:
                        cur += 1
                if n:
                    comp.append(cur)
                comps.append(comp)
            for comp in comps:
                for tpos, gap in [(None, "T")] + [(t_, g_) for t_ in range(len(comp) + 1) for g_ in ("T", "E")]:
                    plan = list(comp)
                    if tpos is not None:
                        plan.insert(tpos, gap)
                    for calls in battery:
                        fs = FakeSock(enc(stream), plan)
                        bs = su.BufferedSocket(fs, timeout=None)
                        evs = []
                        for call in calls:
                            for attempt in range(6):
                                r = run_call(bs, call, None)
                                try:
                                    rb = dec(bs.getrecvbuffer())
                                except Exception:
                                    rb = [-7]
                                evs.append({"call": call, "r": r, "rbuf": rb, "pos": fs.pos})
                                if r["e"] not in INTERRUPTED:
                                    break
                        out.append({"kind": "recv", "stream": list(stream), "recvsize": 0, "plan": [PLANCODE.get(p, p) for p in plan], "ev": evs})
    return out


def main(tier, seed):
    t0 = time.time()
    stats, verdict = Stats(), Verdict(PROP, tier, seed)
    thorough = tier == "thorough"
    stats.add_tlc(tlc_must_pass(SPECDIR, "BufSockMC.tla", "BufSockMC_thorough.cfg" if thorough else "BufSockMC.cfg", workers=core.NCPU, timeout=3000, heap="8g"))
    neg = tlc(SPECDIR, "BufSockMC.tla", "BufSockMC_slip.cfg", workers=core.NCPU, timeout=3000)
    if not neg.invariant_violated:
        raise core.MachineryError("negative control: an off-by-one rolling offset did not violate chunking independence")
    stats.extra["negative_control"] = "OffsetSlip=1 violates %s (as it must)" % neg.invariant_violated
    rng = random.Random(seed)
    sessions = exhaustive_sessions(5 if thorough else 4)
    stats.extra["exhaustive_sessions"] = len(sessions)
    for _ in range(40000 if thorough else 5000):
        sessions.append(recv_session(rng, 40 if rng.random() < 0.3 else 8))
    for _ in range(10000 if thorough else 1500):
        sessions.append(send_session(rng))
    for _ in range(10000 if thorough else 1500):
        sessions.append(ns_session(rng))
    canary(stats)
    for s in sessions:
        s.setdefault("payloads", [])
        s.setdefault("wire", [])
        s.setdefault("read", [])
        s.setdefault("after", {"e": "ok", "v": []})
    core.validate_traces_generic(SPECDIR, "BufSockTrace.tla", "BufSockTrace.cfg", sessions, stats, verdict, "socketutils.BufferedSocket",
                                 sig_extra=sig_extra)
    stats.nontrivial = {core.canon([s["stream"], s.get("plan"), [e.get("call") for e in s["ev"]]]) for s in sessions
                        if s["kind"] != "recv" or len(s.get("plan", [])) > 1}
    stats.sample(sessions[len(sessions) // 3])
    stats.sample(sessions[-1])
    rc = verdict.finish()
    cov = stats.coverage(
        "exhaustive: every stream up to 4 (thorough 5) bytes over {a, d1, d2} x every composition into chunks x a timeout in every "
        "single gap x 4 call batteries; random: longer streams, recvsize 1-4, several timeouts, all five receive calls, partial-send "
        "plans, netstring payloads made of framing characters. Every call attempt is judged by TLC against Ref and conservation. "
        "distinct_nontrivial = distinct (stream, plan, calls) sessions whose plan has more than one delivery step.", False)
    cov["evaluations"] = len(sessions)
    core.write_evidence(PROP, tier, seed, cov, ["scripted socket: chunking and timeouts are inputs, not wall-clock events",
                                                "netstrings: chunking only, no timeouts inside read_ns"], time.time() - t0, len(verdict.violations))
    return rc


def sig_extra(tr, ev, p=None):
    if tr["kind"] == "ns":
        return {"subject": "socketutils.NetstringSocket", "op": "read_ns/write_ns", "what": tr["after"]["e"]}
    if tr["kind"] == "send":
        return {"op": ev.get("call"), "what": "send-side:" + ev["r"]["e"]}
    return {"op": ev["call"]["c"], "what": "observed:" + ev["r"]["e"]}


def canary(stats):
    rng = random.Random(5)
    good = recv_session(rng, 8)
    while len(good["ev"]) < 2 or good["ev"][0]["r"]["e"] != "ok":
        good = recv_session(rng, 8)
    bad = json.loads(json.dumps(good))
    bad["ev"][0]["rbuf"] = bad["ev"][0]["rbuf"] + [1]       # a duplicated byte
    for s in (good, bad):
        s.update({"payloads": [], "wire": [], "read": [], "after": {"e": "ok", "v": []}})
    v = Verdict(PROP, "canary", 0)
    v.findings.entries = []
    s = Stats()
    core.validate_traces_generic(SPECDIR, "BufSockTrace.tla", "BufSockTrace.cfg", [good, bad], s, v, "canary", shards=1, sig_extra=sig_extra)
    if s.traces_accepted == 0:
        return
    if s.traces_accepted != 1 or len(v.violations) != 1:
        raise core.MachineryError("trace canary: a duplicated buffered byte was not rejected")
    stats.extra["canary"] = "a duplicated byte in a logged receive buffer was rejected by TLC"


def replay(path):
    case = json.load(open(path))["case"]
    print(json.dumps(case, indent=1)[:6000])
    return 0
