"""C01 - OrderedMultiDict is an insertion-ordered pair list.

Spec: specs/omd/OMD.tla (reference), OMDMC (bounded model + graph export), OMDTrace.
"""
import copy as copymod
import pickle
import random
import time

from harness import core
from harness.core import SPECS, Graph, Stats, Verdict, tlc_must_pass, GenericAdapter

PROP = "C01"
META = {
    "technique": "TLA+ reference spec of the pair list (OMD.tla) model-checked by TLC; full state graph replayed on OrderedMultiDict (all argument forms, four concretisations, also the urlutils copy and FastIterOrderedMultiDict); recorded traces validated by TLC (OMDTrace.tla)",
    "level_text": "TLC checks the mutual-consistency clauses of all reads on every state of the bounded pair-list model; every transition is executed on the real class from a fresh object and the complete read battery is compared with the specification's prediction after each; seeded random histories over more keys are validated by TLC event by event.",
    "level_note": "Bounds in specs/omd/*.cfg (2-3 keys, pair lists up to 3-4 long in the graph; 5 keys / 60 operations in traces). popitem is set-valued in the spec (the property fixes no victim). No proof about the Python source.",
}
SPECDIR = SPECS / "omd"
MARK = [[-1, -1]]


class CK:
    """colliding, totally ordered keys"""
    __slots__ = ("i",)

    def __init__(self, i):
        self.i = i

    def __hash__(self):
        return 7

    def __eq__(self, o):
        return isinstance(o, CK) and o.i == self.i

    def __lt__(self, o):
        return self.i < o.i

    def __repr__(self):
        return "CK(%d)" % self.i


CONCS = {
    "str-keys/int-values": (lambda i: "k%d" % i, lambda v: v),
    "tuple-keys/str-values": (lambda i: (i, "x"), lambda v: "v%02d" % v),
    "bytes-keys/tuple-values": (lambda i: b"k%d" % i, lambda v: (v, v)),
    "colliding-keys/float-values": (lambda i: CK(i), lambda v: v + 0.25),
}
NAT = 12


class Driver(GenericAdapter):
    subject = "dictutils.OrderedMultiDict"

    def __init__(self, conc_name, U, cls=None, label=None):
        self.name = conc_name + ("" if not label else "@" + label)
        k, v = CONCS[conc_name]
        self.K = lambda i: None if i == 0 else k(i)
        self.V = lambda i: None if i == 0 else v(i)
        self.U = U
        self._tab = [(k(i), i) for i in range(1, NAT)] + [(v(i), i) for i in range(1, NAT)]
        self.strkeys = conc_name.startswith("str-keys")
        if cls is None:
            from boltons.dictutils import OrderedMultiDict as cls
        self.cls = cls
        if label:
            self.subject = label

    def dec(self, x):
        if x is None:
            return 0
        for c, i in self._tab:
            if type(c) is type(x) and c == x:
                return i
        if type(x) is int and 0 <= x < 1000:
            return x
        return -999

    # ---- arguments in their concrete forms
    def pairs(self, arg):
        return [(self.K(p["k"]), self.V(p["v"])) for p in arg]

    def argform(self, arg, form):
        ps = self.pairs(arg)
        if form == "pairs":
            return ps
        if form == "tuple":
            return tuple(ps)
        if form == "iter":
            return (p for p in ps)
        if form == "dict":
            return dict(ps)
        if form in ("omd", "omd-other-class"):
            # an OMD argument of the target's class, or of the other one of the two (a subclass instance in a plain OMD
            # and the other way round)
            cls_ = self.cls
            if form == "omd-other-class":
                from boltons import dictutils, urlutils
                cls_ = dictutils.OrderedMultiDict if self.cls is not dictutils.OrderedMultiDict else urlutils.QueryParamDict
            o = cls_()
            for k, v in ps:
                o.add(k, v)
            return o
        if form == "lists":
            return [[k, v] for k, v in ps]             # pairs need not be tuples
        if form == "ordereddict":
            import collections
            return collections.OrderedDict(ps)
        if form == "mappingproxy":
            import types
            return types.MappingProxyType(dict(ps))
        if form == "keysgetitem":
            class Src:                    # the minimal mapping protocol: keys() and []
                def __init__(self, d):
                    self.d = d

                def keys(self):
                    return list(self.d)

                def __getitem__(self, k):
                    return self.d[k]
            return Src(dict(ps))
        raise core.MachineryError("form " + str(form))

    def variants(self, op):
        n = op["op"]
        distinct = len({p["k"] for p in op["arg"]}) == len(op["arg"])
        if n == "addlist":
            return ["list", "tuple", "iter"]
        if n in ("update", "update_extend", "ior", "ctor"):
            v = ["pairs", "iter", "omd"] + (["lists", "omd-other-class"] if n in ("update", "update_extend") or THOROUGH else [])
            if n == "update":
                v.append("tuple")
            if distinct:
                v.append("dict")
                if n == "update" or THOROUGH:
                    v += ["ordereddict", "mappingproxy"] + (["keysgetitem"] if n in ("update", "update_extend") else [])
                if self.strkeys and n in ("update", "ctor", "update_extend"):
                    v.append("kw")
                    if len(op["arg"]) >= 2:
                        v.append("pairs+kw")        # one call mixing the forms: leading pairs positionally, the rest as keywords
            return v
        if n == "copy":
            # /src, /copy: the other object is wrecked at once; /twin, /swap: the other object is kept as it is and
            # re-read by the walks after every later step of the one the history goes on with
            return [a + b for a in ("method", "copy", "deepcopy", "pickle2", "pickleH") for b in ("/src", "/copy")] + \
                   [a + b for a in ("method", "copy", "deepcopy") for b in ("/twin", "/swap")]
        if n == "fromkeys":
            return ["list", "iter"]
        return [None]

    def fresh(self, state):
        return self.cls()

    def _copy(self, o, how):
        if how == "method":
            return o.copy()
        if how == "copy":
            return copymod.copy(o)
        if how == "deepcopy":
            return copymod.deepcopy(o)
        if how == "pickle2":
            return pickle.loads(pickle.dumps(o, 2))
        return pickle.loads(pickle.dumps(o, pickle.HIGHEST_PROTOCOL))

    def step(self, o, op, variant):
        K, V, dec = self.K, self.V, self.dec
        n, k = op["op"], op["k"]
        got = {}
        d = op["d"]
        try:
            v = []
            if n == "add":
                o.add(K(k), V(op["v"]))
            elif n == "addlist":
                vals = [V(x) for x in op["vs"]]
                form = variant or "list"
                o.addlist(K(k), vals if form == "list" else tuple(vals) if form == "tuple" else iter(vals))
            elif n in ("addlist_failing", "update_failing", "update_extend_failing"):
                def breaking(items, after):
                    for j_, x_ in enumerate(items):
                        if j_ >= after:
                            break
                        yield x_
                    raise RuntimeError("source failed")
                if n == "addlist_failing":
                    o.addlist(K(k), breaking([V(x) for x in op["vs"]], d))
                elif n == "update_failing":
                    o.update(breaking(self.pairs(op["arg"]), d))
                else:
                    o.update_extend(breaking(self.pairs(op["arg"]), d))
            elif n == "setitem":
                o[K(k)] = V(op["v"])
            elif n == "delitem":
                del o[K(k)]
            elif n in ("update", "update_extend"):
                f = getattr(o, n)
                if variant == "kw":
                    f((), **dict(self.pairs(op["arg"])))
                elif variant == "pairs+kw":
                    ps_ = self.pairs(op["arg"])
                    f(ps_[:len(ps_) // 2], **dict(ps_[len(ps_) // 2:]))
                else:
                    f(self.argform(op["arg"], variant or "pairs"))
            elif n == "ior":
                o0 = o
                o |= self.argform(op["arg"], variant or "pairs")
                if o is not o0:
                    raise core.MachineryError("|= rebinds")
            elif n == "update_self":
                o.update(o)
            elif n == "update_extend_self":
                o.update_extend(o)
            elif n == "ctor":
                if variant == "kw":
                    o = self.cls(**dict(self.pairs(op["arg"])))
                elif variant == "pairs+kw":
                    ps_ = self.pairs(op["arg"])
                    o = self.cls(ps_[:len(ps_) // 2], **dict(ps_[len(ps_) // 2:]))
                else:
                    o = self.cls(self.argform(op["arg"], variant or "pairs"))
            elif n == "setdefault":
                v = [dec(o.setdefault(K(k)) if d == -1 else o.setdefault(K(k), V(d)))]
            elif n == "pop":
                v = [dec(o.pop(K(k)) if d == -1 else o.pop(K(k), V(d)))]
            elif n == "popall":
                x = o.popall(K(k)) if d == -1 else o.popall(K(k), V(d))
                v = [dec(e) for e in x] if isinstance(x, list) else [dec(x)]
            elif n == "poplast":
                if k == 0:
                    x = o.poplast() if d == -1 else o.poplast(default=V(d))
                else:
                    x = o.poplast(K(k)) if d == -1 else o.poplast(K(k), V(d))
                v = [dec(x)]
            elif n == "popitem":
                a, b = o.popitem()
                v = [dec(a), dec(b)]
            elif n == "clear":
                o.clear()
            elif n == "copy":
                how, who = (variant or "method/src").split("/")
                c = self._copy(o, how)
                if type(c) is not type(o) or c is o:
                    v = [-5]
                got["also_t"] = [self.observe(c, None)]
                if who == "twin":
                    got["twin"] = c
                elif who == "swap":
                    got["twin"] = o
                    o = c
                elif who == "src":       # mutate the copy, keep judging the source
                    c.add(K(1), V(2))
                    c[K(2)] = V(1)
                    c.poplast()
                    c.clear()
                else:                  # mutate the source, keep judging the copy
                    o.add(K(1), V(2))
                    o[K(2)] = V(1)
                    o.poplast()
                    o.clear()
                    o = c
            elif n in ("to_sorted", "to_sorted_rev", "to_sortedvalues", "to_inverted", "to_counts"):
                before = self.observe(o, None)
                src = o
                if n == "to_sorted":
                    o = src.sorted()
                elif n == "to_sorted_rev":
                    o = src.sorted(reverse=True)
                elif n == "to_sortedvalues":
                    o = src.sortedvalues()
                elif n == "to_inverted":
                    o = src.inverted()
                    o._verif_inv = True      # its keys are the source's values
                else:
                    o = src.counts()
                if type(o) is not type(src) or self.observe(src, None) != before:
                    v = [-5]
            elif n == "fromkeys":
                keys = [K(x) for x in op["vs"]]
                keys = keys if (variant or "list") == "list" else iter(keys)
                o = self.cls.fromkeys(keys) if d == -1 else self.cls.fromkeys(keys, V(d))
            else:
                raise core.MachineryError("unknown op " + n)
            r = {"e": "ok", "v": v}
        except (core.Hang, core.MachineryError):
            raise
        except Exception as ex:
            r = {"e": core.exc_name(ex), "v": []}
        got["r"] = r
        return o, got

    # ---- the read battery, in exactly the JSON shape of OMD!Obs
    def observe(self, o, got):
        dec, K = self.dec, (self.V if getattr(o, "_verif_inv", False) else self.K)
        res = {}

        def g(name, fn):
            try:
                res[name] = fn()
            except core.Hang:
                raise
            except Exception as ex:
                res[name] = "raised:" + core.exc_name(ex)

        def pl(items):
            return [[dec(a), dec(b)] for a, b in items]
        g("items_t", lambda: pl(o.items(multi=True)))
        g("items_f", lambda: pl(o.items()))
        g("keys_t", lambda: [dec(x) for x in o.keys(multi=True)])
        g("keys_f", lambda: [dec(x) for x in o.keys()])
        g("values_t", lambda: [dec(x) for x in o.values(multi=True)])
        g("values_f", lambda: [dec(x) for x in o.values()])
        g("len", lambda: len(o))
        g("iter", lambda: [dec(x) for x in o])
        g("reversed", lambda: [dec(x) for x in reversed(o)])
        def own(lst):
            """the caller owns what a read hands out: scribbling on it must not show in any later read"""
            if isinstance(lst, list):
                copy_ = list(lst)
                lst.append(("scribbled", "on"))
                lst.reverse()
                return copy_
            return lst
        g("getlist", lambda: ([own(o.getlist(K(a))) for a in range(self.U + 1)],
                              [[dec(x) for x in own(o.getlist(K(a)))] for a in range(self.U + 1)])[1])

        def get1(a):
            sentinel = object()
            x = o.get(K(a), sentinel)
            if x is sentinel:
                if o.get(K(a)) is not None:
                    return ["get-default-mismatch"]
                try:
                    o[K(a)]
                    return ["getitem-did-not-raise"]
                except KeyError:
                    return []
            y = o[K(a)]
            if y is not x and y != x:
                return ["get/getitem-disagree"]
            return [dec(x)]
        g("get", lambda: [get1(a) for a in range(self.U + 1)])
        g("contains", lambda: [K(a) in o for a in range(self.U + 1)])
        g("todict_f", lambda: sorted(pl(o.todict().items())))
        g("todict_t", lambda: sorted([dec(a), [dec(x) for x in own(b)]] for a, b in o.todict(multi=True).items()))
        for meth in ("keys", "values", "items"):
            try:
                own(getattr(o, meth)(multi=True))
                own(getattr(o, meth)())
            except Exception:
                pass
        g("counts", lambda: pl(o.counts().items(multi=True)))
        raw = None
        try:
            raw = list(o.iteritems(multi=True))
        except Exception:
            pass
        has_none = raw is None or any(a is None or b is None for a, b in raw)
        g("inverted", lambda: pl(o.inverted().items(multi=True)))
        if has_none:
            res["sorted"] = MARK
            res["sortedvalues"] = MARK
            res["sorted_rev"] = res["sorted_byval"] = res["sortedvalues_rev"] = MARK
        else:
            g("sorted", lambda: pl(o.sorted().items(multi=True)))
            g("sortedvalues", lambda: pl(o.sortedvalues().items(multi=True)))
            g("sorted_rev", lambda: pl(o.sorted(reverse=True).items(multi=True)))
            g("sorted_byval", lambda: pl(o.sorted(key=lambda item: item[1]).items(multi=True)))
            g("sortedvalues_rev", lambda: pl(o.sortedvalues(reverse=True).items(multi=True)))
        eq = {}

        def e(name, other, refl=True):
            try:
                a, b = (o == other), (o != other)
                if a == b:
                    eq[name] = "eq/ne-inconsistent"
                    return
                if refl:
                    a2, b2 = (other == o), (other != o)
                    if a2 != a or b2 != b:
                        eq[name] = "reflected-disagrees"
                        return
                eq[name] = a
            except core.Hang:
                raise
            except Exception as ex:
                eq[name] = "raised:" + core.exc_name(ex)
        def kinds(name, d):
            """the same mapping content handed over as the other mapping types a caller may hold: all must get the
            answer the plain dict gets"""
            import collections
            import types

            class ReadOnly(collections.abc.Mapping):
                def __init__(self, d_):
                    self._d = d_

                def __getitem__(self, k_):
                    return self._d[k_]

                def __iter__(self):
                    return iter(self._d)

                def __len__(self):
                    return len(self._d)
            first = eq.get(name)
            for label, other in (("OrderedDict", collections.OrderedDict(d)), ("mappingproxy", types.MappingProxyType(dict(d))),
                                 ("Mapping", ReadOnly(dict(d))), ("UserDict", collections.UserDict(d))):
                # (asked of the OMD only: with such an operand on the left its own __eq__ answers, e.g. OrderedDict
                # compares the dict storage)
                e(name, other, refl=False)
                if eq.get(name) != first:
                    eq[name] = "as-%s:%r-but-as-dict:%r" % (label, eq.get(name), first)
                    return
        if raw is not None:
            same = self.cls()
            for a, b in raw:
                same.add(a, b)
            e("same_omd", same)
            if eq.get("same_omd") is True:
                e("same_omd", o)                            # the object itself
            if eq.get("same_omd") is True:
                sub = type("Sub", (self.cls,), {})()          # an instance of a subclass with the same pairs
                for a, b in raw:
                    sub.add(a, b)
                e("same_omd", sub)
            rev = self.cls()
            for a, b in reversed(raw):
                rev.add(a, b)
            e("reordered_omd", rev)
            plus = self.cls()
            for a, b in raw + [(raw[0][0] if raw else K(1), ("one", "more"))]:
                plus.add(a, b)
            e("plus_one_omd", plus)
            dup = self.cls()
            for a, b in raw + raw[-1:]:
                dup.add(a, b)
            e("plus_dup_last_omd", dup)
            minus = self.cls()
            for a, b in raw[:-1]:
                minus.add(a, b)
            e("minus_one_omd", minus)
            dvo = self.cls()
            for i, (a, b) in enumerate(raw):
                dvo.add(a, ("changed",) if i == 0 else b)
            e("diffval_omd", dvo)
            vis = {}
            for a, b in raw:
                vis[a] = b
            e("same_dict", dict(vis))
            kinds("same_dict", vis)
            dv = dict(vis)
            if dv:
                k0 = next(iter(dv))
                dv[k0] = ("some", "other", "value")
            e("diffval_dict", dv)
            kinds("diffval_dict", dv)
            mk = dict(vis)
            if mk:
                del mk[next(iter(mk))]
            e("missing_key_dict", mk)
            kinds("missing_key_dict", mk)
            ren_any = False
            for kk in list(vis):
                rn = {(("renamed", "key") if a is kk else a): b for a, b in vis.items()}
                e("renamed_key_dict", rn)
                if eq.get("renamed_key_dict") is False:
                    # the same comparand as a mapping that answers for keys it does not hold (defaultdict, Counter): it
                    # holds another key, so it is not equal - and asking must not make it grow
                    import collections
                    dd = collections.defaultdict(lambda v_=vis[kk]: v_, rn)
                    e("renamed_key_dict", dd, refl=False)
                    if eq.get("renamed_key_dict") is False and len(dd) != len(rn):
                        eq["renamed_key_dict"] = "comparand-grew"
                if eq.get("renamed_key_dict") is not False:
                    ren_any = eq.get("renamed_key_dict")
                    break
            eq["renamed_key_dict"] = ren_any
            xk = dict(vis)
            xk[("extra", "key")] = 1
            e("extra_key_dict", xk)
            kinds("extra_key_dict", xk)
            e("non_mapping", 5, refl=False)
            if eq.get("non_mapping") is False:
                e("non_mapping", list(raw), refl=False)
        res["eq"] = eq
        wf = True
        try:
            if raw is not None:
                exp = "%s([%s])" % (type(o).__name__, ", ".join(repr((a, b)) for a, b in raw))
                if repr(o) != exp:
                    wf = "repr"
                if list(o.iterkeys(multi=True)) != [a for a, _ in raw] or list(o.itervalues(multi=True)) != [b for _, b in raw]:
                    wf = "iter*-disagree"
                if bool(o) != (len(raw) > 0):
                    wf = "bool"
            else:
                wf = "iteritems-raised"
        except core.Hang:
            raise
        except Exception as ex:
            wf = "raised:" + core.exc_name(ex)
        res["wf"] = wf
        return res

    def signature(self, st, op, variant, got, obs, outs):
        return {}


# ------------------------------------------------------------------ traces

OPS_W = ["add", "add", "add", "addlist", "setitem", "setitem", "delitem", "update", "update", "update_extend", "ior",
         "setdefault", "pop", "popall", "poplast", "poplast", "popitem", "clear", "copy", "update_self",
         "update_extend_self", "ctor"]


def record_traces(n, length, seed, U=5, cls=None, label=None):
    rng = random.Random(seed)
    traces = []
    for t in range(n):
        cn = rng.choice(list(CONCS))
        drv = Driver(cn, U, cls=cls, label=label)
        o = drv.fresh(None)
        evs = []
        size = 0
        for i in range(length):
            n_ = rng.choice(OPS_W)
            if n_ in ("clear", "ctor") and rng.random() < 0.75:
                n_ = "add"
            if size > 9 and n_ in ("add", "addlist", "update_extend", "update_extend_self"):
                n_ = rng.choice(["pop", "delitem", "poplast"])
            k = rng.randint(1, U) if rng.random() < 0.9 else 0          # 0: the key None
            op = {"op": n_, "k": 0, "v": 0, "d": 0, "arg": [], "vs": []}
            if n_ in ("add", "setitem", "addlist", "delitem", "setdefault", "pop", "popall"):
                op["k"] = k
            if n_ in ("add", "setitem"):
                op["v"] = rng.randint(1, 3) if rng.random() < 0.85 else 0      # 0: the value None
            if n_ == "addlist":
                op["vs"] = [rng.randint(1, 3) for _ in range(rng.randint(0, 3))]
            if n_ in ("pop", "popall", "poplast"):
                op["d"] = rng.choice([-1, 0, 2])
            if n_ == "setdefault":
                op["d"] = rng.choice([-1, 2])
            if n_ == "poplast":
                op["k"] = rng.choice([0, 0, k])
            if n_ in ("update", "update_extend", "ior", "ctor"):
                op["arg"] = [{"k": rng.randint(1, U), "v": rng.randint(1, 3)} for _ in range(rng.randint(0, 3))]
            if n_ in ("addlist", "update", "update_extend") and rng.random() < 0.12:
                # the argument is an iterator that raises after its first d items
                op["op"] = n_ = n_ + "_failing"
                op["d"] = rng.randint(0, len(op["vs"] if n_.startswith("addlist") else op["arg"]))
            variant = rng.choice(drv.variants(op))
            o, got = drv.step(o, op, variant)
            obs = drv.observe(o, got)
            size = len(obs["items_t"]) if isinstance(obs.get("items_t"), list) else 0
            ev = {"op": op, "variant": variant or "", "r": got["r"], "obs": obs, "also_t": got.get("also_t", [])}
            evs.append(ev)
            if got["r"]["e"] == "timeout":
                break
        traces.append({"conc": drv.name, "U": U, "ev": evs})
    return traces


def sanitize(traces):
    """TLC cannot compare a string with a sequence: anything that is not of the expected JSON shape
    (e.g. 'raised:KeyError' where a list is expected) is replaced by a marker value that can
    never equal the specification's value."""
    def fix_obs(o):
        out = {}
        for k in ("items_t", "items_f", "todict_f", "counts", "inverted", "sorted", "sortedvalues", "sorted_rev", "sorted_byval", "sortedvalues_rev"):
            v = o.get(k)
            out[k] = v if isinstance(v, list) and all(isinstance(p, list) and len(p) == 2 and all(isinstance(x, int) for x in p) for p in v) else [[-7, -7]]
        for k in ("keys_t", "keys_f", "values_t", "values_f", "iter", "reversed"):
            v = o.get(k)
            out[k] = v if isinstance(v, list) and all(isinstance(x, int) for x in v) else [-7]
        out["len"] = o.get("len") if isinstance(o.get("len"), int) else -7
        v = o.get("getlist")
        out["getlist"] = v if isinstance(v, list) and all(isinstance(l, list) and all(isinstance(x, int) for x in l) for l in v) else [[-7]]
        v = o.get("get")
        out["get"] = v if isinstance(v, list) and all(isinstance(l, list) and all(isinstance(x, int) for x in l) for l in v) else [[-7]]
        v = o.get("contains")
        out["contains"] = v if isinstance(v, list) and all(isinstance(x, bool) for x in v) else [False]
        v = o.get("todict_t")
        out["todict_t"] = v if isinstance(v, list) and all(isinstance(p, list) and len(p) == 2 and isinstance(p[0], int) and isinstance(p[1], list) for p in v) else [[-7, [-7]]]
        eq = o.get("eq") or {}
        out["eq"] = {k: (eq.get(k) if isinstance(eq.get(k), bool) else (k == "extra_key_dict"))   # flipped = never matches
                     for k in ("same_omd", "reordered_omd", "plus_one_omd", "plus_dup_last_omd", "minus_one_omd", "diffval_omd", "same_dict", "renamed_key_dict", "diffval_dict", "missing_key_dict", "extra_key_dict", "non_mapping")}
        if not all(isinstance(eq.get(k), bool) for k in out["eq"]):
            out["eq"]["same_omd"] = False
        out["wf"] = o.get("wf") is True
        return out
    res = []
    for tr in traces:
        evs = []
        for ev in tr["ev"]:
            e2 = dict(ev)
            e2["obs"] = fix_obs(ev["obs"])
            e2["also_t"] = [fix_obs(x) for x in ev.get("also_t", [])]
            evs.append(e2)
        res.append({"conc": tr["conc"], "U": tr["U"], "ev": evs})
    return res


def subjects():
    from boltons import dictutils, urlutils
    out = [(None, None)]
    if getattr(urlutils, "OrderedMultiDict", None) is not None and urlutils.OrderedMultiDict is not dictutils.OrderedMultiDict:
        out.append((urlutils.OrderedMultiDict, "urlutils.OrderedMultiDict"))
    if isinstance(getattr(urlutils, "QueryParamDict", None), type):
        out.append((urlutils.QueryParamDict, "urlutils.QueryParamDict"))
    return out


THOROUGH = False


def main(tier, seed):
    global THOROUGH
    THOROUGH = tier == "thorough"
    t0 = time.time()
    stats, verdict = Stats(), Verdict(PROP, tier, seed)
    thorough = tier == "thorough"
    r = tlc_must_pass(SPECDIR, "OMDMC.tla", "OMDMC_thorough.cfg" if thorough else "OMDMC.cfg", workers=core.NCPU, timeout=1500)
    stats.add_tlc(r)
    r = tlc_must_pass(SPECDIR, "OMDMC.tla", "OMDGen_thorough.cfg" if thorough else "OMDGen.cfg", workers=1, timeout=1500)
    stats.add_tlc(r)
    g = Graph(r)
    U = 3
    stats.extra["graph_states"], stats.extra["graph_edges"] = len(g.states), g.n_edges
    concs = list(CONCS) if thorough else ["str-keys/int-values", "colliding-keys/float-values"]
    subs = subjects()
    for ci, cn in enumerate(concs):
        for cls, label in (subs if (thorough or ci == 0) else subs[:1]):
            core.replay_graph_generic(g, Driver(cn, U, cls=cls, label=label), verdict, stats)
    for cn in concs:
        core.replay_walks(g, Driver(cn, U), verdict, stats, n_walks=3000 if thorough else 400, length=12, seed=seed)
    canary_graph(g, U)
    ntr, ln = (4000, 60) if thorough else (400, 40)
    traces = []
    for cls, label in subs:
        traces += record_traces(ntr if cls is None else ntr // 4, ln, seed + len(traces), cls=cls, label=label)
    canary_traces(seed, stats)
    core.validate_traces_generic(SPECDIR, "OMDTrace.tla", "OMDTrace.cfg", sanitize(traces), stats, verdict, Driver.subject,
                                 sig_extra=lambda tr, ev: {"subject": tr["conc"].split("@")[1]} if "@" in tr["conc"] else {})
    stats.sample({"trace_first_events": [{"op": e["op"], "r": e["r"], "items_t": e["obs"]["items_t"]} for e in traces[0]["ev"][:4]]})
    rc = verdict.finish()
    core.write_evidence(PROP, tier, seed, stats.coverage(
        "graph: every (state, op, argument form) group of the bounded pair-list model executed on the real class from a "
        "fresh object along a shortest path, comparing the result and the complete read battery; traces: seeded random "
        "histories (5 keys) validated event by event by TLC. distinct_nontrivial = distinct (state, op) groups whose "
        "execution changed state or raised.", True),
        ["bounds: see specs/omd/*.cfg", "popitem victim is unspecified by the property; the spec admits removing all pairs of any one key or the last pair",
         "sorted()/sortedvalues() are not judged when a None key or value is present (Python cannot order None)"],
        time.time() - t0, len(verdict.violations))
    return rc


def canary_graph(g, U):
    drv = Driver("str-keys/int-values", U)
    for (fk, ok), outs in g.groups.items():
        op = g.ops[ok]
        if op["op"] == "add" and fk in g.path and len(g.states[fk]["ps"]) == 1:
            init, path = g.path[fk]
            o = drv.fresh(None)
            for (pok, po, ptk) in path:
                o, _ = drv.step(o, g.ops[pok], None)
            o, got = drv.step(o, op, None)
            obs = drv.observe(o, got)
            tk = outs[0][1]
            if drv.compare(obs, g.obs[tk], None) is not None:
                return   # a real disagreement here is reported by the replay itself
            bad = dict(g.obs[tk])
            bad["keys_f"] = list(reversed(bad["keys_t"])) + [9]
            if drv.compare(obs, bad, None) is None:
                raise core.MachineryError("graph canary: altered prediction was not rejected")
            return
    raise core.MachineryError("graph canary: no suitable edge")


def canary_traces(seed, stats):
    drv = Driver("str-keys/int-values", 5)
    o = drv.fresh(None)
    evs = []
    for k, v in ((1, 1), (2, 2), (1, 3)):
        op = {"op": "add", "k": k, "v": v, "d": 0, "arg": [], "vs": []}
        o, got = drv.step(o, op, None)
        evs.append({"op": op, "variant": "", "r": got["r"], "obs": drv.observe(o, got), "also_t": []})
    good = {"conc": drv.name, "U": 5, "ev": evs}
    import json
    bad = json.loads(json.dumps(good))
    bad["ev"][1]["obs"]["values_f"] = [1, 1]
    v = Verdict(PROP, "canary", 0)
    v.findings.entries = []
    s = Stats()
    core.validate_traces_generic(SPECDIR, "OMDTrace.tla", "OMDTrace.cfg", sanitize([good, bad]), s, v, "canary", shards=1)
    if s.traces_accepted != 1 or len(v.violations) != 1 or v.violations[0][1]["rejected_at_event"] != 2:
        if s.traces_accepted == 0:
            return    # the plain trace itself is rejected: a real disagreement, reported by the main run
        raise core.MachineryError("trace canary: expected exactly the corrupted trace to be rejected at event 2")
    stats.extra["canary"] = "corrupted trace event rejected at the right index; altered graph prediction rejected"


def replay(path):
    import json
    case = json.load(open(path))["case"]
    print(json.dumps(case, indent=1, default=str)[:6000])
    return 0
