"""C04 - atomic_save never exposes a partially written destination, at any crash point.

Spec: specs/fs/AtomicSave.tla (judge over event sequences with the directory view after each event),
AtomicSaveMC (every event sequence of the design incl. volatile/durable model, negative controls),
AtomicSaveTrace (real call sequences recorded by interposing on os / file objects).
"""
import itertools
import json
import multiprocessing as mp
import random
import time

from harness import core, asave
from harness.core import SPECS, Stats, Verdict, tlc, tlc_must_pass

PROP = "C04"
META = {
    "technique": "TLA+ judge over file-system event sequences (AtomicSave.tla) applied by TLC to every sequence of the design model (AtomicSaveMC, with no-fsync / no-flush / write-in-place negative controls) and to sequences recorded from the real code by interposing on os/io/file objects, with the directory inspected after every event (= crash there); thorough tier really SIGKILLs a forked child at every event",
    "level_text": "Every file-system call and every write/flush/close on the part file is an event; after each one the directory is read back, which is exactly what a crash at that instant leaves. TLC judges each recorded sequence: destination always previous-or-complete-new, publication in one atomic step and only after everything was written, flushed and fsynced, normal exit leaves the new content and no part file. The same judge accepts every sequence of the design model and rejects the negative controls.",
    "level_note": "Crash = process death (page cache survives); power loss is judged through the call order (fsync covering the full size before the publishing rename/link), kernel rename/link atomicity and fsync are trusted; directory-entry durability is not claimed by the property. Scenarios: 5 write patterns x text/binary x destination absent/present x overwrite on/off x permissions options.",
}
SPECDIR = SPECS / "fs"


def base_cfg(**kw):
    cfg = {"overwrite": True, "overwrite_part": False, "rm_part_on_exc": True, "text_mode": False, "perms": -1, "umask": 0o022,
           "dest_present": True, "part_present": False, "body": "three", "raise_at": -1, "dest_appears": False}
    cfg.update(kw)
    return cfg


def scenarios(thorough):
    out = []
    for body, text, dp, ow in itertools.product(["none", "one", "three", "big", "many"], [False, True], [False, True], [True, False]):
        if not ow and dp:
            continue
        for perms, umask in ((-1, 0o022), (0o600, 0o077), (0, 0o022)) if not thorough else ((-1, 0o022), (-1, 0o077), (0o600, 0o022), (0o644, 0o077), (0, 0o077), (0o444, 0o022)):
            out.append(base_cfg(body=body, text_mode=text, dest_present=dp, overwrite=ow, perms=perms, umask=umask))
    for perms, umask, dmode in ((0o755, 0o022, 0o640), (-1, 0, 0o750), (-1, 0o022, 0), (-1, 0o002, 0o604), (0o775, 0, 0)):
        for dp in (False, True):
            out.append(base_cfg(body="three", dest_present=dp, perms=perms, umask=umask, dest_mode=dmode))
    # the second save of a long-lived saver object (descriptors opened in between)
    for body, text in (("three", False), ("big", True), ("one", False)):
        out.append(base_cfg(body=body, text_mode=text, dest_present=True, warm_saver=True))
        out.append(base_cfg(body=body, text_mode=text, dest_present=True, warm_saver=True, perms=0o600))
    # the documented manual protocol instead of the with statement
    for body, at in (("three", -1), ("big", -1), ("three", 1)):
        for dp in (False, True):
            out.append(base_cfg(body=body, raise_at=at, dest_present=dp, manual_protocol=True))
    # buffering: unbuffered binary, line-buffered text, a tiny buffer that spills in the middle of the body
    for body in ("three", "many", "big"):
        out.append(base_cfg(body=body, text_mode=False, buffering=0))
        out.append(base_cfg(body=body, text_mode=True, buffering=1))
        out.append(base_cfg(body=body, text_mode=False, buffering=16, dest_present=False))
        out.append(base_cfg(body=body, text_mode=True, buffering=16))
    # the part file on another file system (part_file= given as an absolute path): publishing by rename is impossible
    for dp in (False, True):
        for text in (False, True):
            out.append(base_cfg(body="big", text_mode=text, dest_present=dp, part_elsewhere=True))
    # a body that raises must leave the destination untouched at every instant too
    for body, at in (("three", 0), ("three", 2), ("one", 1), ("big", 1)):
        for dp in (False, True):
            for kind, text in (("Exception", False), ("KeyboardInterrupt", False), ("SystemExit", True), ("GeneratorExit", False), ("FalsyError", False)):
                out.append(base_cfg(body=body, raise_at=at, dest_present=dp, raise_kind=kind, text_mode=text))
    for op in (False, True):
        out.append(base_cfg(part_present=True, overwrite_part=op))
        # leftover of a crash between link() and unlink(): the part name is a hard link to the destination
        for ow in (False, True):
            out.append(base_cfg(part_present="link", overwrite_part=op, overwrite=ow, dest_present=True))
    return out


def judge(traces, stats, verdict, subject):
    def sig_extra(tr, ev, p):
        why = p["st"]["why"]
        at = p["l"]
        evname = tr["ev"][at - 1]["name"] if 1 <= at <= len(tr["ev"]) else "final"
        return {"what": why, "op": evname, "faulted_event": next((e["name"] for e in tr["ev"] if e["faulted"]), None),
                "raise_at": tr["scenario"]["raise_at"]}
    core.validate_traces_generic(SPECDIR, "AtomicSaveTrace.tla", "AtomicSaveTrace.cfg", traces, stats, verdict, subject, sig_extra=sig_extra)


def _run(cfg):
    return asave.run(cfg)


def _run_faulted(job):
    return asave.run(job[0], job[1])


def _killed(job):
    cfg, k, when = job
    return (cfg, k, when, asave.run_killed(cfg, (k, when)))


def main(tier, seed):
    t0 = time.time()
    stats, verdict = Stats(), Verdict(PROP, tier, seed)
    thorough = tier == "thorough"
    design_model(stats)
    scs = scenarios(thorough)
    with mp.get_context("fork").Pool(core.NCPU) as pool:
        traces = pool.map(_run, scs)
        # the durability steps themselves may fail: whatever the code then does, it must not publish unsynced data
        fj = []
        for t in traces:
            for k, e in enumerate(t["ev"]):
                if e["name"] in ("flush", "fsync", "close", "write"):
                    fj.append((t["scenario"], {k: 5}))
        traces += pool.map(_run_faulted, fj, chunksize=8)
    stats.extra["runs_with_failing_durability_step"] = len(fj)
    canary(traces, stats)
    judge(traces, stats, verdict, "fileutils.atomic_save")
    crash_points = sum(len(t["ev"]) for t in traces)
    stats.extra["crash_points_inspected"] = crash_points
    # really die at every event (all in thorough, a sample in quick) and look from the parent
    jobs = []
    rng = random.Random(seed)
    for t in traces:
        if t["faults"]:
            continue
        for k in range(len(t["ev"]) - 1):
            for when in ("before", "after"):
                if thorough or rng.random() < 0.5:
                    jobs.append((t["scenario"], k, when))
    with mp.get_context("fork").Pool(core.NCPU) as pool:
        res = pool.map(_killed, jobs, chunksize=8)
    nk = 0
    for cfg, k, when, r in res:
        if r["killed"]:
            nk += 1
        allowed = {"old" if cfg["dest_present"] else "absent", "new"}
        if r["dest"] not in allowed:
            verdict.fail({"subject": "fileutils.atomic_save", "op": "SIGKILL", "what": "dest-not-whole-after-kill", "raise_at": cfg["raise_at"]},
                         {"scenario": cfg, "killed_at_event": k, "when": when, "destination_after": r["dest"]})
    stats.extra["children_sigkilled"] = nk
    stats.edges_executed += nk
    stats.nontrivial = {core.canon([t["scenario"], i]) for t in traces for i in range(len(t["ev"]))}
    stats.sample({"scenario": traces[0]["scenario"], "events": [[e["name"], e["target"], e["dest"]["st"], e["part"]["st"], e["part"]["size"]] for e in traces[0]["ev"]]})
    rc = verdict.finish()
    cov = stats.coverage(
        "every scenario (write pattern x mode x initial destination x overwrite x permissions; bodies that raise) is run once under the "
        "interposer; each of its events is a crash point whose directory view is judged by TLC; children are SIGKILLed before/after "
        "events (all of them in the thorough tier) and the directory inspected from the parent. distinct_nontrivial = distinct "
        "(scenario, event index) crash points.", True)
    cov["evaluations"] = crash_points + nk
    core.write_evidence(PROP, tier, seed, cov, ["kernel rename/link atomic, fsync durable", "crash = process death; power loss judged by call order"],
                        time.time() - t0, len(verdict.violations))
    return rc


def design_model(stats):
    if not (SPECDIR / "AtomicSaveMC.tla").exists():
        return
    r = tlc_must_pass(SPECDIR, "AtomicSaveMC.tla", "AtomicSaveMC.cfg", workers=core.NCPU, timeout=3000)
    stats.add_tlc(r)
    ctl = []
    for c in ("AtomicSaveMC_nofsync.cfg", "AtomicSaveMC_noflush.cfg", "AtomicSaveMC_inplace.cfg"):
        n = tlc(SPECDIR, "AtomicSaveMC.tla", c, workers=core.NCPU, timeout=3000)
        if not n.invariant_violated:
            raise core.MachineryError("negative control %s did not violate the judge" % c)
        ctl.append("%s violates %s" % (c, n.invariant_violated))
    stats.extra["negative_controls"] = ctl


def canary(traces, stats):
    good = next((t for t in traces if not t["raised"] and t["total"] > 0 and t["scenario"]["dest_present"]), None)
    if good is None:
        return
    bad = json.loads(json.dumps(good))
    for e in bad["ev"]:
        if e["name"] == "fsync":
            e["name"] = "fsync_removed"       # as if the hook had not seen an fsync: publication must be rejected
    bad2 = json.loads(json.dumps(good))
    bad2["ev"][3]["dest"] = {"st": "other", "mode": bad2["ev"][3]["dest"]["mode"]}
    v = Verdict(PROP, "canary", 0)
    v.findings.entries = []
    s = Stats()
    judge([good, bad, bad2], s, v, "canary")
    if s.traces_accepted == 0:
        return
    if s.traces_accepted != 1 or len(v.violations) != 2:
        raise core.MachineryError("trace canary: removing the fsync event / corrupting a snapshot was not rejected")
    stats.extra["canary"] = "a trace with its fsync event removed and one with a corrupted crash snapshot were rejected by TLC"


def replay(path):
    case = json.load(open(path))["case"]
    print(json.dumps(case, indent=1)[:6000])
    return 0
