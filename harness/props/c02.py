"""C02 - LRI/LRU capacity, recency eviction, counters, copy.

Spec: specs/cache/Cache.tla (reference), CacheMC (bounded model + graph export),
CacheTrace (validation of traces recorded from the real classes).
"""
import itertools
import json
import os
import random
import tempfile
import time

from harness import core
from harness.core import SPECS, Graph, Stats, Verdict, tlc, tlc_must_pass

PROP = "C02"
META = {
    "technique": "TLA+ reference spec (Cache.tla) model-checked by TLC; full state graph replayed on LRI/LRU with behavioural eviction-order probes; recorded traces validated by TLC (CacheTrace.tla)",
    "level_text": "TLC checks the capacity/eviction/counter clauses exhaustively on the bounded reference model; every transition of that model is executed on the real classes and compared (results, counters, on_miss calls, all reads, eviction order), and seeded random histories of the real classes are accepted or rejected by TLC step by step. Exhaustive within the bounds, sampled beyond.",
    "level_note": "Bounds in specs/cache/*.cfg (3-4 keys, max_size 1-3, both classes, three on_miss modes). The spec is bound to the code only through the executed transitions and validated traces; no proof about the Python source.",
}
SPECDIR = SPECS / "cache"


# ------------------------------------------------------------------ concretisation

class CollidingKey:
    """Hashable keys that all collide (hash 1) - stresses dict probing, not bookkeeping."""
    __slots__ = ("i",)

    def __init__(self, i):
        self.i = i

    def __hash__(self):
        return 1

    def __eq__(self, o):
        return isinstance(o, CollidingKey) and o.i == self.i

    def __repr__(self):
        return "CK(%d)" % self.i


CONCS = {
    "str-keys/int-values": (lambda i: "k%d" % i, lambda v: None if v == 0 else v),
    "int-keys/str-values": (lambda i: 100 + i, lambda v: None if v == 0 else "v%d" % v),
    "tuple-keys/list-values": (lambda i: (i, "x"), lambda v: None if v == 0 else [v]),
    "colliding-keys/float-values": (lambda i: CollidingKey(i), lambda v: None if v == 0 else v + 0.5),
}
NKEYS = 40
NVALS = 40


class Conc:
    def __init__(self, name):
        self.name = name
        self.K, self.V = CONCS[name]
        self._k = [(self.K(i), i) for i in range(1, NKEYS)]
        self._v = [(self.V(i), i) for i in range(0, NVALS)]

    def dk(self, x):
        for c, i in self._k:
            if type(c) is type(x) and c == x:
                return i
        return -999

    def dv(self, x):
        for c, i in self._v:
            if type(c) is type(x) and c == x:
                return i
        return -999


# ------------------------------------------------------------------ driving the real classes

class Driver:
    """Applies abstract ops to a real LRI/LRU and reads it back in abstract terms."""
    subject = "cacheutils.LRI/LRU"

    def __init__(self, conc_name, nkeys):
        self.conc = Conc(conc_name)
        self.name = conc_name
        self.nkeys = nkeys
        from boltons import cacheutils
        self.cu = cacheutils

    # -- construction
    def make(self, cfg, values=None):
        calls = []
        box = {}
        K, V = self.conc.K, self.conc.V

        def on_miss(key):
            calls.append(self.conc.dk(key))
            if cfg["om"] == 2:
                box["c"][K(1)] = V(7)
            return V(10 + self.conc.dk(key))
        cls = self.cu.LRU if cfg["lru"] else self.cu.LRI
        kw = {"max_size": cfg["m"]}
        if cfg["om"]:
            kw["on_miss"] = on_miss
        if values is not None:
            kw["values"] = values
        c = cls(**kw)
        box["c"] = c
        c.__dict__["_verif"] = (cfg, calls, box)
        return c

    def fresh(self, state):
        c = self.make(state["c"])
        # ... and as if the cache had a past: it has been filled beyond its capacity (evictions) and emptied again by every
        # removing method, so the ring's anchor and recycled links are not those of a brand-new object
        self.nfresh = getattr(self, "nfresh", 0) + 1
        if self.nfresh % 2 == 0:
            junk = [("junk", i) for i in range(state["c"]["m"] + 2)]
            for j_ in junk:
                c[j_] = 0
            for n_j, j_ in enumerate([k_ for k_ in junk if dict.__contains__(c, k_)]):
                if n_j % 3 == 0:
                    del c[j_]
                elif n_j % 3 == 1:
                    c.pop(j_)
                else:
                    c.popitem()
            if len(c):
                c.clear()
        # as if earlier lookups had happened: counters are judged as deltas, and a method
        # that resets or recomputes them must be visible from any starting point
        c.hit_count, c.miss_count, c.soft_miss_count = 3, 2, 1
        return c

    def arg(self, pairs, form, cfg):
        K, V = self.conc.K, self.conc.V
        conc = [(K(p["k"]), V(p["v"])) for p in pairs]
        if form == "dict":
            return dict(conc)
        if form == "pairs":
            return list(conc)
        if form == "tuple":
            return tuple(conc)
        if form == "iter":
            return iter(list(conc))
        if form in ("lri", "lru", "lri-aged", "lru-aged"):
            # another cache as the source (big enough to hold everything; reading it must not matter to the target)
            from boltons import cacheutils
            other = (cacheutils.LRI if form.startswith("lri") else cacheutils.LRU)(max_size=len(conc) + 2)
            for a, b in conc:
                other[a] = b
            if form.endswith("-aged") and len(conc) >= 2:
                # a source with a past: its oldest key re-assigned (and looked up) after the younger ones came in, so
                # its recency order is no longer its iteration order; a mapping argument is read in iteration order
                other[conc[0][0]] = conc[0][1]
                other[conc[0][0]]
                if len(conc) >= 3:
                    other.get(conc[1][0])
            return other
        if form == "ordereddict":
            import collections
            return collections.OrderedDict(conc)
        if form == "keysgetitem":
            class Src:                    # the minimal mapping protocol dict.update accepts
                def __init__(self, d):
                    self.d = d

                def keys(self):
                    return list(self.d)

                def __getitem__(self, k):
                    return self.d[k]
            return Src(dict(conc))
        raise ValueError(form)

    def variants(self, op):
        n = op["op"]
        if n in ("update", "ctor", "ior"):
            distinct = len({p["k"] for p in op["arg"]}) == len(op["arg"])
            v = ["pairs", "iter"] if n != "ior" else ["pairs"]
            if distinct:
                v.append("dict")
                v += ["lri", "lru", "lri-aged", "lru-aged", "ordereddict"] + (["keysgetitem"] if n != "ctor" else [])
                if n == "update" and self.name.startswith("str-keys"):
                    v.append("kw")
                    v.append("self+kw")             # the cache itself as the source (nothing to take) plus keyword items
                    if len(op["arg"]) >= 2:
                        v.append("dict+kw")         # one call mixing a mapping and keyword items
            if n == "update":
                v.append("tuple")
            return v
        return [None]

    # -- one operation
    def step(self, c, op, variant):
        cfg, calls, box = c.__dict__["_verif"]
        K, V, dk, dv = self.conc.K, self.conc.V, self.conc.dk, self.conc.dv
        n = op["op"]
        before = (c.hit_count, c.miss_count, c.soft_miss_count)
        del calls[:]
        extra = {}
        try:
            if n == "getitem":
                v = [dv(c[K(op["k"])])]
            elif n == "get":
                self.ncalls = getattr(self, "ncalls", 0) + 1
                if op["d"] != 0:
                    v = [dv(c.get(K(op["k"]), default=V(op["d"])) if self.ncalls % 2 else c.get(K(op["k"]), V(op["d"])))]
                else:         # no default given, or None spelt out (positionally / by keyword)
                    v = [dv(c.get(K(op["k"])) if self.ncalls % 3 == 0 else c.get(K(op["k"]), None) if self.ncalls % 3 == 1
                            else c.get(K(op["k"]), default=None))]
            elif n == "setdefault":
                self.ncalls = getattr(self, "ncalls", 0) + 1
                if op["d"] != 0:
                    v = [dv(c.setdefault(K(op["k"]), default=V(op["d"])) if self.ncalls % 2 else c.setdefault(K(op["k"]), V(op["d"])))]
                else:
                    v = [dv(c.setdefault(K(op["k"])) if self.ncalls % 2 else c.setdefault(K(op["k"]), None))]
            elif n == "setitem":
                c[K(op["k"])] = V(op["v"])
                v = []
            elif n == "delitem":
                del c[K(op["k"])]
                v = []
            elif n == "pop":
                self.npop = getattr(self, "npop", 0) + 1
                v = [dv(c.pop(K(op["k"])))] if op["d"] == -1 else [dv(c.pop(K(op["k"]), V(op["d"])) if self.npop % 2 else c.pop(K(op["k"]), default=V(op["d"])))]
            elif n == "popitem":
                k, val = c.popitem()
                v = [dk(k), dv(val)]
            elif n == "clear":
                c.clear()
                v = []
            elif n == "update":
                form = variant or "pairs"
                if form == "kw":
                    c.update((), **{K(p["k"]): V(p["v"]) for p in op["arg"]})
                elif form == "self+kw":
                    c.update(c, **{K(p["k"]): V(p["v"]) for p in op["arg"]})
                elif form == "dict+kw":
                    h = len(op["arg"]) // 2
                    c.update({K(p["k"]): V(p["v"]) for p in op["arg"][:h]}, **{K(p["k"]): V(p["v"]) for p in op["arg"][h:]})
                else:
                    c.update(self.arg(op["arg"], form, cfg))
                v = []
            elif n == "update_self":
                c.update(c)
                v = []
            elif n == "ior":
                c0 = c
                c |= self.arg(op["arg"], variant or "pairs", cfg)
                if c is not c0:
                    extra["ior_identity"] = False
                v = []
            elif n == "ctor":
                c = self.make(cfg, values=self.arg(op["arg"], variant or "pairs", cfg))
                cfg, calls, box = c.__dict__["_verif"]
                before = (0, 0, 0)
                v = []
            elif n == "copy":
                c2 = c.copy()
                extra["copy"] = self.read_copy(c, c2, cfg)
                v = []
            elif n == "contains":
                v = [1 if K(op["k"]) in c else 0]
            elif n == "len":
                v = [len(c)]
            else:
                raise core.MachineryError("unknown op " + n)
            r = {"e": "ok", "v": v}
        except core.Hang:
            raise
        except core.MachineryError:
            raise
        except Exception as ex:
            r = {"e": core.exc_name(ex), "v": []}
        after = (c.hit_count, c.miss_count, c.soft_miss_count)
        got = {"r": r, "dh": after[0] - before[0], "dm": after[1] - before[1], "ds": after[2] - before[2],
               "calls": list(calls)}
        got.update(extra)
        return c, got

    def read_copy(self, c, c2, cfg):
        d = {"same_class": type(c2) is type(c), "m": getattr(c2, "max_size", None),
             "distinct_object": c2 is not c}
        d.update(self.reads(c2))
        d["order"] = self.probe(c2, d["m"] if isinstance(d["m"], int) else cfg["m"])
        return d

    # -- reads that must not disturb anything
    def reads(self, c):
        dk, dv, K = self.conc.dk, self.conc.dv, self.conc.K
        o = {}

        def guard(name, fn):
            try:
                o[name] = fn()
            except core.Hang:
                raise
            except Exception as ex:
                o[name] = "raised:" + core.exc_name(ex)
        before = (c.hit_count, c.miss_count, c.soft_miss_count)
        guard("len", lambda: len(c))
        guard("iter", lambda: sorted(dk(k) for k in c))
        guard("keys", lambda: sorted(dk(k) for k in c.keys()))
        guard("items", lambda: sorted([dk(k), dv(v)] for k, v in c.items()))
        guard("dict", lambda: sorted([dk(k), dv(v)] for k, v in dict(c).items()))
        guard("values", lambda: sorted(dv(v) for v in c.values()))
        guard("in", lambda: [i for i in range(1, self.nkeys + 2) if K(i) in c])
        guard("repr", lambda: isinstance(repr(c), str))
        same = dict(dict.items(c))
        guard("eq_same_dict", lambda: (c == same, c != same))
        guard("eq_same_dict_r", lambda: (same == c, same != c))
        if same:
            k0 = sorted(same, key=dk)[0]
            diff = dict(same)
            diff[k0] = "another value"
            guard("eq_diffval_dict", lambda: (c == diff, c != diff))
            short = dict(same)
            del short[k0]
            guard("eq_shorter_dict", lambda: (c == short, c != short))
        longer = dict(same)
        longer[K(NKEYS - 1)] = 1
        guard("eq_longer_dict", lambda: (c == longer, c != longer))
        for cls in (self.cu.LRI, self.cu.LRU):
            other = cls(max_size=max(1, len(same)))
            for k, v in same.items():
                other[k] = v
            guard("eq_same_" + cls.__name__, lambda: (c == other, c != other, other == c))
        # caches that differ: another value under one key, one key renamed (same length)
        if same:
            for cls in (self.cu.LRI, self.cu.LRU):
                for label, chg in (("diffval", lambda d_: d_.__setitem__(k0, "another value")),
                                   ("renamed", lambda d_: (d_.pop(k0), d_.__setitem__(K(NKEYS - 1), same[k0])))):
                    other = cls(max_size=len(same) + 1)
                    d_ = dict(same)
                    chg(d_)
                    for k, v in d_.items():
                        other[k] = v
                    r_ = (c == other, c != other, other == c, other != c)
                    if r_ != (False, True, False, True):
                        o["eq_same_" + cls.__name__] = "unequal-%s-cache:%r" % (label, r_)
        guard("eq_self", lambda: (c == c, c != c))
        # the value a lookup returns is the value the views show (lookups of an LRI change nothing but counters; for an LRU
        # they are made on a copy)
        def lookups():
            tgt = c if not isinstance(c, self.cu.LRU) else c.copy()
            h0 = (c.hit_count, c.miss_count, c.soft_miss_count)
            vals = sorted([dk(k), dv(tgt[k])] for k in list(dict.keys(tgt)))
            vals_get = sorted([dk(k), dv(tgt.get(k, "no"))] for k in list(dict.keys(tgt)))
            if tgt is c:
                c.hit_count, c.miss_count, c.soft_miss_count = h0
            return vals if vals == vals_get else "getitem/get disagree"
        guard("items_by_lookup", lookups)
        guard("eq_unsized", lambda: (c == None, c != None, c == 5, c != 5))      # noqa: E711 - the comparison itself is the test
        guard("eq_pairs_list", lambda: (c == list(dict.items(c)), c != list(dict.items(c))) if len(c) else (False, True))
        after = (c.hit_count, c.miss_count, c.soft_miss_count)
        o["reads_touch_counters"] = [a - b for a, b in zip(after, before)]
        return o

    def probe(self, c, m):
        """Reveal the complete eviction order behaviourally: insert fresh keys one at a
        time and watch (with dict-level membership, which touches nothing) who leaves."""
        K, V = self.conc.K, self.conc.V
        live = [k for k in dict.keys(c)]
        order = []
        overflow = False
        for j in range(m + 1):
            if not live:
                break
            try:
                c[K(20 + j)] = V(1)
            except Exception as ex:
                return "raised:" + core.exc_name(ex)
            if len(c) > m:
                overflow = True
            gone = [k for k in live if not dict.__contains__(c, k)]
            for k in gone:
                live.remove(k)
            order.extend([self.conc.dk(k) for k in gone] if len(gone) <= 1 else [sorted(self.conc.dk(k) for k in gone)])
        if live:
            return {"never_evicted": sorted(self.conc.dk(k) for k in live), "order": order, "overflow": overflow}
        if overflow:
            return {"overflow": True, "order": order}
        return order

    def observe(self, c, got):
        cfg = c.__dict__["_verif"][0]
        o = self.reads(c)
        o["max_size_attr"] = c.max_size
        o["order"] = self.probe(c, cfg["m"])
        return o

    # -- comparison with the specification's predictions
    def match(self, got, pred):
        if got["r"] != pred["r"]:
            return "result"
        for f in ("dh", "dm", "ds"):
            if got[f] != pred[f]:
                return "counter:" + f
        if got["calls"] != pred["calls"]:
            return "on_miss_calls"
        if got.get("ior_identity") is False:
            return "ior_rebinds"
        if "copy" in got:
            st = pred["s"]
            w = self.compare(got["copy"], abstract_obs(st), st)
            if w:
                return "copy." + w
            if not got["copy"]["same_class"] or got["copy"]["m"] != st["c"]["m"] or not got["copy"]["distinct_object"]:
                return "copy.class_or_capacity"
        return None

    def compare(self, o, pobs, st):
        items = sorted([list(x) for x in pobs["items"]])
        keys = sorted(pobs["keys"])
        exp = {"len": pobs["len"], "iter": keys, "keys": keys, "items": items, "dict": items, "items_by_lookup": items,
               "values": sorted(v for _, v in items), "in": keys, "repr": True,
               "eq_same_dict": (True, False), "eq_same_dict_r": (True, False),
               "eq_diffval_dict": (False, True), "eq_shorter_dict": (False, True),
               "eq_longer_dict": (False, True), "eq_same_LRI": (True, False, True),
               "eq_same_LRU": (True, False, True), "eq_self": (True, False), "eq_unsized": (False, True, False, True), "eq_pairs_list": (False, True),
               "reads_touch_counters": [0, 0, 0], "order": list(pobs["order"])}
        if "max_size_attr" in o:
            exp["max_size_attr"] = pobs["m"]
        for f in exp:
            if f in o and o[f] != exp[f]:
                return f
        return None

    def signature(self, st, op, variant, got, obs, outs):
        return {"cls": "LRU" if st["c"]["lru"] else "LRI"}


def abstract_obs(st):
    it = st["it"]
    return {"len": len(it), "keys": [e["k"] for e in it], "order": [e["k"] for e in it],
            "items": [[e["k"], e["v"]] for e in it], "m": st["c"]["m"]}


# ------------------------------------------------------------------ traces (code -> spec)

def record_traces(n, length, seed, nkeys=6, only=None):
    """Random histories on real caches; one JSON event per call with result, counter
    deltas, on_miss calls and contents; ends with an order probe."""
    rng = random.Random(seed)
    traces = []
    for t in range(n):
        conc = rng.choice(list(CONCS))
        drv = Driver(conc, nkeys)
        cfg = {"m": rng.randint(1, 5), "lru": rng.random() < 0.5, "om": rng.choice([0, 0, 1, 2])}
        c = drv.make(cfg)
        evs = []
        twin = None
        for i in range(length):
            n_ = rng.choice(["getitem", "getitem", "get", "setdefault", "setitem", "setitem", "setitem", "delitem",
                             "pop", "popitem", "clear", "update", "ior", "ctor", "copy", "contains", "len",
                             "update_self"])
            if n_ in ("clear", "ctor") and rng.random() < 0.7:
                n_ = "setitem"
            if only and n_ not in only:
                n_ = "setitem"
            k = rng.randint(1, nkeys)
            op = {"op": n_, "k": k if n_ in ("getitem", "get", "setdefault", "setitem", "delitem", "pop", "contains") else 0,
                  "v": rng.randint(1, 3) if n_ == "setitem" else 0,
                  "d": rng.choice([0, 5]) if n_ in ("get", "setdefault") else (rng.choice([-1, 0, 5]) if n_ == "pop" else 0),
                  "arg": []}
            variant = None
            if n_ in ("update", "ior", "ctor"):
                op["arg"] = [{"k": rng.randint(1, nkeys), "v": rng.randint(1, 4)} for _ in range(rng.randint(0, 4))]
                variant = rng.choice(drv.variants(op))
            c, got = drv.step(c, op, variant)
            forked = False
            if n_ == "copy" and twin is None and got["r"]["e"] == "ok" and rng.random() < 0.6:
                # a second cache that lives on: the copy, or (history continuing on the copy) the source
                try:
                    c3 = c.copy()
                    c3.__dict__["_verif"] = c.__dict__["_verif"]
                    # (copy() is not promised to carry on_miss over: the history moves to the copy only without one)
                    twin, c = (c3, c) if rng.random() < 0.5 or cfg["om"] else (c, c3)
                    forked = True
                except Exception:
                    pass
            ev = {"op": op, "variant": variant or "", "r": got["r"], "dh": got["dh"], "dm": got["dm"], "ds": got["ds"],
                  "calls": got["calls"],
                  "items": sorted([drv.conc.dk(k_), drv.conc.dv(v_)] for k_, v_ in dict.items(c)),
                  "len": len(c)}
            if "copy" in got:
                cp = got["copy"]
                ev["copy_ok"] = bool(cp["same_class"] and cp["m"] == cfg["m"] and cp["distinct_object"])
                ev["copy_items"] = cp["items"] if isinstance(cp["items"], list) else [[-1, -1]]
                ev["copy_order"] = cp["order"] if isinstance(cp["order"], list) and all(isinstance(x, int) for x in cp["order"]) else [-1]
            if forked:
                ev["fork"] = True
            evs.append(ev)
            if got["r"]["e"] == "timeout":
                break
        if twin is not None:
            try:
                titems = sorted([drv.conc.dk(k_), drv.conc.dv(v_)] for k_, v_ in dict.items(twin))
                torder = drv.probe(twin, cfg["m"])
            except Exception:
                titems, torder = [[-1, -1]], [-1]
            evs.append({"op": {"op": "twin_probe", "k": 0, "v": 0, "d": 0, "arg": []}, "variant": "", "r": {"e": "ok", "v": []},
                        "dh": 0, "dm": 0, "ds": 0, "calls": [],
                        "order": torder if isinstance(torder, list) and all(isinstance(x, int) for x in torder) else [-1],
                        "items": titems, "len": len(titems)})
        order = drv.probe(c, cfg["m"])
        evs.append({"op": {"op": "probe", "k": 0, "v": 0, "d": 0, "arg": []}, "variant": "", "r": {"e": "ok", "v": []},
                    "dh": 0, "dm": 0, "ds": 0, "calls": [],
                    "order": order if isinstance(order, list) and all(isinstance(x, int) for x in order) else [-1],
                    "items": [], "len": 0})
        traces.append({"cfg": cfg, "ev": evs, "conc": conc})
    return traces


def validate_traces(traces, stats, verdict, shards=None):
    """Batch-validate with TLC (CacheTrace.tla); one JVM per shard, shards in parallel."""
    shards = shards or min(core.NCPU, max(1, len(traces) // 50))
    parts = [traces[i::shards] for i in range(shards)]
    tmp = tempfile.mkdtemp(prefix="c02tr-")

    def run(i):
        f = os.path.join(tmp, "t%d.json" % i)
        with open(f, "w") as fh:
            json.dump(parts[i], fh)
        return tlc(SPECDIR, "CacheTrace.tla", "CacheTrace.cfg", workers=1, env={"TRACE_FILE": f}, timeout=1800)
    try:
        results = core.parallel(run, range(shards))
    finally:
        pass
    accepted = 0
    for i, r in enumerate(results):
        if not r.ok:
            raise core.MachineryError("CacheTrace TLC run failed:\n" + "\n".join(r.out.splitlines()[-30:]))
        stats.add_tlc(r)
        acc = {a[1] for a in r.raw_tuples("ACCEPT")}
        rej = {}
        for p in r.payloads("REJECT"):
            rej.setdefault(p["tid"], p)
        for j, tr in enumerate(parts[i], 1):
            stats.trace_events += len(tr["ev"])
            if j in acc:
                accepted += 1
                continue
            p = rej.get(j)
            if p is None:
                raise core.MachineryError("trace %d of shard %d has neither ACCEPT nor REJECT" % (j, i))
            ev = tr["ev"][p["l"] - 1]
            sig = {"subject": Driver.subject, "op": ev["op"]["op"], "variant": ev.get("variant") or None,
                   "what": "trace-rejected", "cls": "LRU" if tr["cfg"]["lru"] else "LRI"}
            verdict.fail(sig, {"trace_cfg": tr["cfg"], "concretisation": tr["conc"], "rejected_at_event": p["l"],
                               "event": ev, "spec_state_before": p["st"], "spec_expected": p["exp"],
                               "history": [e["op"] for e in tr["ev"][:p["l"]]]})
    import shutil
    shutil.rmtree(tmp, ignore_errors=True)
    stats.traces_accepted += accepted
    return accepted


# ------------------------------------------------------------------ main

def main(tier, seed):
    t0 = time.time()
    stats, verdict = Stats(), Verdict(PROP, tier, seed)
    thorough = tier == "thorough"
    # 1. the property clauses on the reference specification, exhaustively
    r = tlc_must_pass(SPECDIR, "CacheMC.tla", "CacheMC_thorough.cfg" if thorough else "CacheMC.cfg",
                      workers=core.NCPU, coverage=False, timeout=1500)
    stats.add_tlc(r)
    # 2. export the labelled graph and execute every transition on the real classes
    r = tlc_must_pass(SPECDIR, "CacheMC.tla", "CacheGen_thorough.cfg" if thorough else "CacheGen.cfg", workers=1,
                      timeout=1500)
    stats.add_tlc(r)
    g = Graph(r)
    stats.extra["graph_states"] = len(g.states)
    stats.extra["graph_edges"] = g.n_edges
    concs = list(CONCS) if thorough else ["str-keys/int-values", "colliding-keys/float-values"]
    for cn in concs:
        replay_graph_with(g, cn, verdict, stats)
    # canary: the binding must reject an altered prediction
    canary_graph(g)
    # 3. traces from the real classes, validated by TLC
    ntr, ln = (6000, 60) if thorough else (600, 40)
    traces = record_traces(ntr, ln, seed)
    canary_traces(record_traces(5, 12, seed + 1, only=("setitem", "getitem", "pop")), stats)
    validate_traces(traces, stats, verdict)
    stats.sample({"trace_cfg": traces[0]["cfg"], "first_events": traces[0]["ev"][:3]})
    rc = verdict.finish()
    core.write_evidence(PROP, tier, seed, stats.coverage(
        "graph: every (state, op, argument form) group of the bounded Cache model executed on LRI and LRU from a fresh "
        "object along a shortest path, comparing result, counter deltas, on_miss calls, all reads and the probed "
        "eviction order; traces: seeded random histories (6 keys, max_size 1-5) validated event by event by TLC. "
        "distinct_nontrivial = distinct (state, op) groups whose execution changed state or raised.", True),
        ["bounds: see CacheMC*.cfg constants", "eviction order observed behaviourally by inserting fresh keys",
         "dict-level reads (dict.items, dict.__contains__) assumed not to run cacheutils code"],
        time.time() - t0, len(verdict.violations))
    return rc


def replay_graph_with(g, cn, verdict, stats):
    k = max((op.get("k", 0) for op in g.ops.values()), default=3)
    drv = Driver(cn, k)
    return core.replay_parallel(g, drv, verdict, stats, generic=False)


def canary_graph(g):
    """Alter one predicted result; the replay must object (else the binding is vacuous)."""
    drv = Driver("str-keys/int-values", 3)
    for (fk, ok), outs in g.groups.items():
        op = g.ops[ok]
        if op["op"] == "getitem" and outs[0][0]["r"]["e"] == "ok" and fk in g.path:
            init, path = g.path[fk]
            c = drv.fresh(g.states[init])
            for (pok, po, ptk) in path:
                c, _ = drv.step(c, g.ops[pok], None)
            c, got = drv.step(c, op, None)
            bad = json.loads(json.dumps(outs[0][0]))
            bad["r"]["v"] = [bad["r"]["v"][0] + 1]
            if drv.match(got, bad) is None or drv.match(got, outs[0][0]) is not None:
                raise core.MachineryError("graph canary: altered prediction was not rejected")
            return
    raise core.MachineryError("graph canary: no suitable edge")


def canary_traces(traces, stats):
    bad = json.loads(json.dumps(traces))
    # corrupt one logged result in trace 1
    target = None
    for i, ev in enumerate(bad[0]["ev"]):
        if ev["op"]["op"] in ("setitem",) and i > 2:
            ev["items"] = ev["items"] + [[39, 1]]
            target = i + 1
            break
    if target is None:
        return
    v = Verdict(PROP, "canary", 0)
    v.findings.entries = []
    s = Stats()
    validate_traces(bad, s, v, shards=1)
    hits = [c for sig, c in v.violations if c["rejected_at_event"] == target]
    if not hits:
        raise core.MachineryError("trace canary: corrupted event %d was not rejected" % target)
    stats.extra["canary"] = "corrupted trace event rejected at the right index; altered graph prediction rejected"


def replay(path):
    case = json.load(open(path))["case"]
    print(json.dumps(case, indent=1, default=str)[:4000])
    if "path" in case:
        drv = Driver(case["concretisation"], 3)
        c = drv.fresh(case["init"])
        for op in case["path"]:
            c, got = drv.step(c, op, None)
            print("  ", op, "->", got)
        c, got = drv.step(c, case["op"], case["variant"])
        print("FINAL", case["op"], case["variant"], "->", got)
        print("OBS", drv.observe(c, got))
    return 0
