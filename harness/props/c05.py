"""C05 - a failed or refused atomic_save leaves the destination intact and cleans up.

Same specification and interposer as C04 (specs/fs/AtomicSave.tla); here an OSError is injected at every
file-system / file-object event (singly, and in pairs in the thorough tier) over the configuration product,
bodies that raise, refusals and a destination appearing concurrently; TLC judges every run.
"""
import errno
import itertools
import json
import multiprocessing as mp
import random
import time

from harness import core, asave
from harness.core import SPECS, Stats, Verdict
from harness.props import c04

PROP = "C05"
META = {
    "technique": "fault injection at every interposed file-system / file-object call of atomic_save (single faults, pairs in the thorough tier) across the configuration product, every run judged by TLC with the AtomicSave.tla judge (destination unchanged, exception surfaced, part file cleaned, retry succeeds, permission precedence); the design model AtomicSaveMC explores the same fault space",
    "level_text": "For each configuration (overwrite, overwrite_part, rm_part_on_exc, text_mode, file_perms, umask, initial destination and part file) and body, a fault-free run fixes the event sequence; then the k-th event is made to raise OSError with an errno typical for that call, for every k (and every pair k<m in the thorough tier). TLC judges each recorded run: destination content and mode unchanged unless the fault struck after publication, an exception reached the caller, the part file created by the save is gone, a stale part file was not touched, an immediate retry succeeds, and completed saves carry the right permissions.",
    "level_note": "Faults are exceptions raised by the interposer instead of performing the call (the call has no effect); a failing cleanup unlink is allowed to leave the part file (nothing can remove it then). The destination appearing concurrently is an environment event placed at the end of the body. Same trusted base as C04.",
}
ERRNO = {"open": errno.ENOSPC, "fdopen": errno.ENOMEM, "chmod": errno.EPERM, "fchmod": errno.EPERM, "write": errno.ENOSPC,
         "flush": errno.ENOSPC, "fsync": errno.EIO, "close": errno.EIO, "rename": errno.EXDEV, "replace": errno.EXDEV,
         "link": errno.EEXIST, "unlink": errno.EACCES, "remove": errno.EACCES, "truncate": errno.EIO}


def configs(thorough, rng):
    out = []
    for ow, op, rm, text, perms, umask, dp, pp in itertools.product([True, False], [False, True], [True, False], [False, True],
                                                                     [-1, 0o600, 0o644, 0], [0o022, 0o077], [False, True], [False, True]):
        out.append(c04.base_cfg(overwrite=ow, overwrite_part=op, rm_part_on_exc=rm, text_mode=text, perms=perms, umask=umask,
                                dest_present=dp, part_present=pp, body="three"))
    # modes with execute and group-write bits, a destination without any permission bits, permissive umasks (the default
    # mode 0o666 shows in full only under umask 0)
    for perms, umask, dmode in ((0o755, 0o022, 0o640), (0o775, 0, 0o640), (-1, 0, 0o750), (-1, 0o002, 0o640), (-1, 0o022, 0), (-1, 0o077, 0o604),
                                (0o444, 0o002, 0), (-1, 0, 0o777)):
        for dp, pp, ow in ((True, False, True), (False, False, True), (False, True, True), (True, False, False)):
            out.append(c04.base_cfg(perms=perms, umask=umask, dest_mode=dmode, dest_present=dp, part_present=pp, overwrite=ow, overwrite_part=pp, body="three"))
    if not thorough:
        rng.shuffle(out)
        keep = [c for c in out if c["rm_part_on_exc"] and not c["part_present"]][:70] + out[:90] + [c for c in out if "dest_mode" in c][:16]
        out = keep
    extra = []
    for c in out[:: (1 if thorough else 4)]:
        for body, at in (("one", -1), ("none", -1), ("three", 1), ("big", -1)):
            d = dict(c)
            d.update(body=body, raise_at=at)
            if at >= 0:
                d["raise_kind"] = ["Exception", "KeyboardInterrupt", "SystemExit", "GeneratorExit", "FalsyError"][len(extra) % 5]
            extra.append(d)
    for c in out:
        if not c["overwrite"] and not c["dest_present"]:
            d = dict(c)
            d["dest_appears"] = True
            extra.append(d)
    for c in out[::3]:
        if c["dest_present"] and c["part_present"]:
            d = dict(c)
            d["part_present"] = "link"
            extra.append(d)
    for c in out[3::7]:
        d = dict(c)
        d["manual_protocol"] = True             # setup() / part_file / __exit__(...) called by hand
        extra.append(d)
    for i_, c in enumerate(out[::6]):
        d = dict(c)
        d["buffering"] = (0 if not c["text_mode"] else 1) if i_ % 2 else 16
        extra.append(d)
    for c in out[::5]:
        if c["dest_present"] and c["overwrite"] and not c["part_present"]:
            d = dict(c)
            d["warm_saver"] = True          # the recorded save is the second one of a long-lived saver object
            extra.append(d)
    allc = out + extra
    for i, c in enumerate(allc):
        c["retry_same_object"] = (i % 2 == 0)     # half of the retries reuse the AtomicSaver object
    return allc

ALT_ERRNO = {"link": (errno.EPERM, errno.EMLINK), "rename": (errno.EACCES,), "replace": (errno.EACCES,), "open": (errno.EACCES,),
             "unlink": (errno.EIO,), "fsync": (errno.ENOSPC,), "close": (errno.ENOSPC,)}


def _job(job):
    cfg, faults = job
    return asave.run(cfg, faults)


def main(tier, seed):
    t0 = time.time()
    stats, verdict = Stats(), Verdict(PROP, tier, seed)
    thorough = tier == "thorough"
    rng = random.Random(seed)
    c04.design_model(stats)
    cfgs = configs(thorough, rng)
    with mp.get_context("fork").Pool(core.NCPU) as pool:
        base = pool.map(_job, [(c, None) for c in cfgs])
        jobs = []
        for tr in base:
            n = len(tr["ev"]) - 1
            names = [e["name"] for e in tr["ev"][:n]]
            for k in range(n):
                if names[k].startswith("env_"):
                    continue
                jobs.append((tr["scenario"], {k: ERRNO.get(names[k], errno.EIO)}))
                # the same step failing for another reason (the code may tell error numbers apart)
                for alt in ALT_ERRNO.get(names[k], ()):
                    jobs.append((tr["scenario"], {k: alt}))
            if thorough:
                # every pair: the second index refers to the event sequence AFTER the first fault changed it (which is
                # usually a few clean-up events long), so it ranges a little past the fault-free length
                for k in range(n):
                    if names[k].startswith("env_"):
                        continue
                    for m in range(k + 1, n + 3):
                        jobs.append((tr["scenario"], {k: ERRNO.get(names[k], errno.EIO), m: rng.choice([errno.EIO, errno.ENOSPC, errno.EACCES])}))
        faulted = pool.map(_job, jobs, chunksize=16)
    traces = base + faulted
    stats.extra.update({"configurations": len(cfgs), "fault_runs": len(faulted),
                        "runs_where_fault_fired": sum(1 for t in faulted if any(e["faulted"] for e in t["ev"]))})
    c04.judge(traces, stats, verdict, "fileutils.atomic_save")
    stats.nontrivial = {core.canon([t["scenario"], t["faults"]]) for t in faulted if any(e["faulted"] for e in t["ev"])}
    ex = next((t for t in faulted if any(e["faulted"] for e in t["ev"])), faulted[0])
    stats.sample({"scenario": ex["scenario"], "faults": ex["faults"], "raised": ex["raised_name"], "retry_ok": ex["retry_ok"],
                  "events": [[e["name"], e["faulted"], e["dest"]["st"], e["part"]["st"]] for e in ex["ev"]]})
    rc = verdict.finish()
    cov = stats.coverage(
        "fault-free run of every configuration / body, then one run per (configuration, event index) with an OSError injected there "
        "(plus every pair of failures in the thorough tier); every run judged by TLC. distinct_nontrivial = distinct (configuration, fault plan) "
        "runs in which an injected fault actually fired.", not thorough and False)
    cov["evaluations"] = len(traces)
    core.write_evidence(PROP, tier, seed, cov, ["a fault replaces the call (no partial effect)", "kernel semantics of link/rename/unlink trusted"],
                        time.time() - t0, len(verdict.violations), level="model_checking")
    return rc


def replay(path):
    case = json.load(open(path))["case"]
    print(json.dumps(case, indent=1)[:6000])
    return 0
