"""C14 - strutils encoders are exactly invertible: shell quoting, integer ranges, gzip.

Specs: specs/enc/ShLex.tla (POSIX shell word splitting), CmdLex.tla (MS C runtime argv rules),
IntList.tla (+EncMC laws), EncTrace.tla (validation of records produced by the real encoders).
"""
import gzip
import itertools
import json
import multiprocessing as mp
import os
import random
import struct
import subprocess
import time

from harness import core
from harness.core import SPECS, Stats, Verdict, tlc_must_pass

PROP = "C14"
META = {
    "technique": "TLA+ lexers for POSIX shell word splitting (with unquoted-special detection) and the Microsoft C runtime argv rules, and a reference for integer-range formatting; the text produced by the real args2sh / args2cmd / escape_shell_args / format_int_list / complement_int_list for enumerated argument lists is validated by TLC (lexing it back must give the arguments); /bin/sh is run on the same texts as an independent judge of the ShLex spec; gzip framing and round trip validated on recorded I/O",
    "level_text": "For every list of one argument of length <= 3 over a 14-symbol alphabet (quotes, backslash, blanks, newline, $ ` * ; ~ #, non-ASCII, empty) and a large seeded sample of two- and three-argument lists, TLC lexes the produced text with the shell and MS-CRT state machines and requires exactly the original arguments with nothing left unquoted; the real /bin/sh splits the same texts (printf '%s\\0') and must agree. Integer lists: every subset of 0..9 with duplicates/permutations and all windows against the TLA+ Format/Complement reference, whose maximality laws TLC checks exhaustively. gzip: header, ISIZE and round trip on enumerated and structured byte strings at levels 1-9.",
    "level_note": "DEFLATE itself is not modelled (codec trusted; framing and round trip observed). The shell judge is dash (/bin/sh); ShLex follows POSIX quoting rules without expansions. No proof about the Python source.",
}
SPECDIR = SPECS / "enc"
ALPHA = ["a", " ", "\t", "\n", "'", '"', "\\", "$", "*", ";", "é", "~", "#", "`"]


def cps(s):
    return [ord(c) for c in s]


def make_records(tier, seed):
    from boltons import strutils as su
    rng = random.Random(seed)
    thorough = tier == "thorough"
    singles = [""] + ["".join(p) for n in (1, 2, 3) for p in itertools.product(ALPHA, repeat=n)]
    lists = [[s] for s in singles]
    words = ["".join(rng.choice(ALPHA) for _ in range(rng.randint(0, 4))) for _ in range(4000)]
    for _ in range(120000 if thorough else 12000):
        lists.append([rng.choice(singles if rng.random() < 0.6 else words) for _ in range(rng.randint(2, 3))])
    # every ASCII code point on its own, inside a word and at the start of a word (the boundary of the "safe" character set,
    # every shell metacharacter), more blanks and controls, a few non-ASCII classes; no arguments at all; many arguments
    ascii_ = [chr(c) for c in range(1, 128)]
    lists += [[c] for c in ascii_] + [["a" + c + "b"] for c in ascii_] + [[c + "a"] for c in ascii_] + [["x", c, "y"] for c in "?[]&|<>(){}!^=\r\x0b\x0c\x7f"]
    lists += [[c] for c in "\u00a0\u2028\u3000\u0661\u0430\U0001f600e\u0301"] + [["\u00a0a b\u2028"]]
    lists += [[]] + [[rng.choice(singles) for _ in range(rng.randint(4, 10))] for _ in range(60)]
    # runs of backslashes before a quote and at the end of a quoted argument (the MS C runtime rules count them)
    lists += [["\\" * n_ + '"'] for n_ in range(0, 7)] + [["a b" + "\\" * n_] for n_ in range(0, 7)] + [['"' + "\\" * n_ + '" x'] for n_ in range(0, 5)]
    lists += [["a b", "c\\", 'd"e', "", 'x\\"y', "trail space\\"], ["\\\\server\\share\\", 'say "hi"\\'], ["--opt=1", "-x", "file.txt", "a@b.c", "50%", "+1", "a,b", "x:y"]]
    # long arguments: an unsafe character after a long safe prefix, long runs of quotes / backslashes
    lists += [["a" * 3000 + "$"], ["'" * 400], ["\\" * 300 + '"'], ["x" * 2000 + " " + "y" * 2000, "z"], ['"' * 250 + "\\" * 250]]
    recs = []
    for n_l, args in enumerate(lists):
        for kind, fn in (("sh", su.args2sh), ("cmd", su.args2cmd)):
            try:
                # the arguments as a list, a tuple, an iterator, dict keys
                src_ = [args, tuple(args), iter(list(args)), dict.fromkeys(args).keys() if len(set(args)) == len(args) else list(args)][n_l % 4]
                text = fn(src_)
            except Exception as ex:
                text = "\x00raised:" + core.exc_name(ex)
            recs.append({"kind": kind, "args": [cps(a) for a in args], "text": cps(text) if isinstance(text, str) else [0]})
    for n_l, args in enumerate(lists[:: 200] + lists[-120:]):
        for style, kind in (("sh", "sh"), ("cmd", "cmd")):
            try:
                text = su.escape_shell_args(args, style=style) if n_l % 2 else su.escape_shell_args(args, " ", style)
            except Exception as ex:
                text = "\x00raised:" + core.exc_name(ex)
            recs.append({"kind": kind, "args": [cps(a) for a in args], "text": cps(text), "via": "escape_shell_args"})
    # integer lists: every subset of 0..9 (0 and 1 included), subsets of bands that cross 9/10, 99/100, 999/1000 (several digits,
    # numeric order), unions of two far-apart bands; given in shuffled order with duplicates; windows in every call form
    member_sets = [[i for i in range(10) if mask >> i & 1] for mask in range(1 << 10)]
    for off in (5, 95, 995, 2 * 10 ** 9 - 3):
        member_sets += [[off + i for i in range(10) if mask >> i & 1] for mask in rng.sample(range(1 << 10), 1024 if thorough else 160)]
    for _ in range(600 if thorough else 150):
        a_ = [i for i in range(12) if rng.random() < 0.5]
        b_ = [rng.choice([40, 250, 1000]) + i for i in range(14) if rng.random() < 0.5]
        member_sets.append(a_ + b_)
    for n_ms, members in enumerate(member_sets):
        given = members + [rng.choice(members) for _ in range(rng.randint(0, 2))] if members else []
        rng.shuffle(given)
        lo, hi = (min(members), max(members)) if members else (0, 0)
        wins = [("both", lo, lo + 10), ("both", lo + rng.randint(0, 3), lo + rng.randint(4, 12)), ("both", lo + 2, lo + 2), ("none", 0, 0),
                [("start-only", rng.randint(0, hi + 2), 0), ("end-only", 0, rng.randint(0, hi + 3)), ("positional", max(0, lo - 3), hi + 4),
                 ("both", hi + 50, hi + 60), ("both", lo + 6, lo + 2)][n_ms % 5]]
        if hi > 10 ** 5:
            # complement_int_list materialises range(range_end): with ten-digit numbers only formatting and parsing are
            # exercised (an empty window costs nothing)
            wins = [("both", 0, 0)]
        for form, start, end in wins:
            # the effective window of each call form (range_start defaults to 0, range_end to one past the largest member)
            dflt_end = (hi + 1) if members else 0
            eff = {"both": (start, end), "positional": (start, end), "none": (0, dflt_end), "start-only": (start, dflt_end), "end-only": (0, end)}[form]
            if n_ms % 5 == 0:
                for bad_call in (lambda: su.parse_int_list("1-x,3"), lambda: su.format_int_list([1, "y"]), lambda: su.complement_int_list("2-")):
                    try:
                        bad_call()
                    except Exception:
                        pass
            try:
                src_ = given if n_ms % 3 else (tuple(given) if n_ms % 2 else (x_ for x_ in given))      # list / tuple / generator
                text = su.format_int_list(src_)
                handed = su.parse_int_list(text)
                parsed = list(handed)
                # the caller owns the list it was handed: what it does to it must not show in any later call (the same
                # text is parsed again for the next window)
                if isinstance(handed, list):
                    handed.reverse()
                    handed.append(1000000)
                comp = {"both": lambda: su.complement_int_list(text, range_start=start, range_end=end),
                        "positional": lambda: su.complement_int_list(text, start, end),
                        "none": lambda: su.complement_int_list(text),
                        "start-only": lambda: su.complement_int_list(text, range_start=start),
                        "end-only": lambda: su.complement_int_list(text, range_end=end)}[form]()
                rec = {"kind": "int", "members": members, "given": given, "text": cps(text), "parsed": parsed, "comp": cps(comp),
                       "start": eff[0], "end": eff[1], "form": form}
            except Exception as ex:
                rec = {"kind": "int", "members": members, "given": given, "text": [0], "parsed": [-1], "comp": [0], "start": eff[0], "end": eff[1],
                       "raised": core.exc_name(ex), "form": form}
            recs.append(rec)
    # gzip: framing + round trip
    datas = [bytes(p) for n in range(0, 4) for p in itertools.product([0, 1, 65, 255], repeat=n)]
    datas += [b"", b"x" * 65536, bytes(rng.getrandbits(8) for _ in range(5000)), b"ab" * 40000, "héllo wörld".encode()]
    # incompressible data beyond one stored block, a payload that is itself a gzip member, lengths in between
    noise = bytes(rng.getrandbits(8) for _ in range(70000))
    datas += [noise, noise[:65535], noise[:65537], su.gzip_bytes(b"inner member"), b"\x1f\x8b\x08 looks like a header", noise[:37], noise[:300], noise[:4097]]
    # calls the functions must refuse, made in between the recorded ones: a refused call leaves nothing behind that the
    # next valid call could pick up
    refused = [lambda: su.gzip_bytes("text, not bytes"), lambda: su.gzip_bytes(b"abc", level=99), lambda: su.gzip_bytes(None),
               lambda: su.gunzip_bytes(b"\x1f\x8b\x08\x00 not a gzip member"), lambda: su.gzip_bytes([1, "x"]),
               lambda: su.gunzip_bytes("text")]
    ncall = 0
    for data in datas:
        for level in (range(1, 10) if len(data) > 2 or thorough else (1, 6, 9)):
            ncall += 1
            if ncall % 3 == 0:
                try:
                    refused[(ncall // 3) % len(refused)]()
                except Exception:
                    pass
            try:
                # level by keyword, positionally, or left to the default (only the round trip is promised then)
                z = su.gzip_bytes(data, level=level) if ncall % 3 else su.gzip_bytes(data, level) if ncall % 2 else su.gzip_bytes(data)
                back = su.gunzip_bytes(z) if ncall % 4 else su.gunzip_bytes(bytearray(z))
                rec = {"kind": "gz", "n": len(data) % (1 << 32), "head": list(z[:3]), "isize": struct.unpack("<I", z[-4:])[0],
                       "same": back == data and gzip.decompress(z) == data, "level": level}
            except Exception as ex:
                rec = {"kind": "gz", "n": len(data), "head": [0], "isize": -1, "same": False, "level": level, "raised": core.exc_name(ex)}
            recs.append(rec)
    return recs


def sh_split(texts):
    """Independent judge: let /bin/sh split each text (as the arguments of printf)."""
    out = []
    script = []
    for t in texts:
        script.append("printf '%s\\0' " + t + "\nprintf '\\001\\n'\n")
    p = subprocess.run(["/bin/sh", "-c", "".join(script)], stdout=subprocess.PIPE, stderr=subprocess.PIPE, cwd="/", env={"PATH": "/usr/bin:/bin"},
                       timeout=120)
    chunks = p.stdout.split(b"\x01\n")
    if p.returncode != 0 or len(chunks) != len(texts) + 1:
        return None
    for c in chunks[:-1]:
        parts = c.split(b"\x00")
        out.append([x.decode("utf-8", "replace") for x in parts[:-1]])
    return out


def sh_judge(batch):
    """batch: list of (args, text). Returns list of indexes where /bin/sh disagrees."""
    res = sh_split([t for _, t in batch])
    if res is None:       # some text broke the script: one by one
        bad = []
        for i, (a, t) in enumerate(batch):
            r = sh_split([t])
            if r is None or norm_printf(r[0], a) != a:
                bad.append(i)
        return bad
    return [i for i, ((a, t), got) in enumerate(zip(batch, res)) if norm_printf(got, a) != a]


def norm_printf(got, args):
    # printf '%s\0' with no arguments prints one empty string
    if not args and got == [""]:
        return []
    return got


def main(tier, seed):
    t0 = time.time()
    stats, verdict = Stats(), Verdict(PROP, tier, seed)
    stats.add_tlc(tlc_must_pass(SPECDIR, "EncMC.tla", "EncMC.cfg", workers=core.NCPU, timeout=1500))
    recs = make_records(tier, seed)
    for r in recs:
        for k, v in (("args", []), ("text", []), ("members", []), ("parsed", []), ("comp", []), ("start", 0), ("end", 0),
                     ("n", 0), ("head", []), ("isize", 0), ("same", True)):
            r.setdefault(k, v)
        r["ev"] = []
    canary(stats)
    core.validate_traces_generic(SPECDIR, "EncTrace.tla", "EncTrace.cfg", recs, stats, verdict, "strutils encoders",
                                 sig_extra=lambda tr, ev, p: {"subject": "strutils." + {"sh": "args2sh", "cmd": "args2cmd", "int": "int_list", "gz": "gzip_bytes"}[tr["kind"]],
                                                              "op": tr["kind"], "what": p["st"]["why"]})
    stats.trace_events = len(recs)
    # the real shell as second judge (and as the binding of ShLex to its environment)
    shrecs = [("".join(map(chr, r["text"])), ["".join(map(chr, a)) for a in r["args"]]) for r in recs if r["kind"] == "sh" and 0 not in r["text"]]
    batches = [[(a, t) for t, a in shrecs[i:i + 400]] for i in range(0, len(shrecs), 400)]
    with mp.get_context("fork").Pool(core.NCPU) as pool:
        res = pool.map(sh_judge, batches)
    tlc_rejected_sh = {core.canon(c["trace_meta"]["args"]) for s, c in verdict.violations if s.get("op") == "sh"} if verdict.violations else set()
    nbad = 0
    for b, bad in zip(batches, res):
        for i in bad:
            nbad += 1
            a, t = b[i]
            if core.canon([cps(x) for x in a]) not in tlc_rejected_sh and verdict.classes and False:
                pass
            verdict.fail({"subject": "strutils.args2sh", "op": "sh", "what": "/bin/sh splits differently"},
                         {"args": a, "text": t, "judge": "/bin/sh -c printf"})
    stats.extra["texts_split_by_bin_sh"] = len(shrecs)
    stats.extra["bin_sh_disagreements"] = nbad
    kinds = {}
    for r in recs:
        kinds[r["kind"]] = kinds.get(r["kind"], 0) + 1
    stats.extra["records_by_kind"] = kinds
    stats.nontrivial = {core.canon([r["kind"], r["args"], r.get("given"), r["n"], r.get("level")]) for r in recs}
    for r in recs[:: max(1, len(recs) // 5)]:
        stats.sample({k: r[k] for k in ("kind", "args", "text", "members", "comp") if r.get(k)})
    rc = verdict.finish()
    core.write_evidence(PROP, tier, seed, stats.coverage(
        "records = (argument list -> produced text) for all single arguments up to 3 symbols over a 14-symbol alphabet plus seeded 2-3 argument "
        "lists, every subset of 0..9 x windows, gzip byte strings x levels; each record is one TLC state of EncTrace (lexing the text back / "
        "reference format / framing). distinct_nontrivial = distinct records.", False),
        ["/bin/sh (dash) as independent judge of shell splitting", "DEFLATE codec trusted; framing + round trip observed"], time.time() - t0, len(verdict.violations))
    return rc


def canary(stats):
    good = {"kind": "sh", "args": [cps("a b")], "text": cps("'a b'")}
    bad = {"kind": "sh", "args": [cps("a b")], "text": cps("a b")}
    bad2 = {"kind": "cmd", "args": [cps('x"y')], "text": cps('x"y')}
    for r in (good, bad, bad2):
        for k, v in (("members", []), ("parsed", []), ("comp", []), ("start", 0), ("end", 0), ("n", 0), ("head", []), ("isize", 0), ("same", True)):
            r.setdefault(k, v)
        r["ev"] = []
    v = Verdict(PROP, "canary", 0)
    v.findings.entries = []
    s = Stats()
    core.validate_traces_generic(SPECDIR, "EncTrace.tla", "EncTrace.cfg", [good, bad, bad2], s, v, "canary", shards=1)
    if s.traces_accepted != 1 or len(v.violations) != 2:
        raise core.MachineryError("canary: unquoted text was not rejected by the lexer specs")
    stats.extra["canary"] = "an unquoted blank (sh) and an unescaped quote (cmd) are rejected by TLC"


def replay(path):
    case = json.load(open(path))["case"]
    print(json.dumps(case, indent=1)[:3000])
    return 0
