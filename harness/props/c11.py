"""C11 - IndexedSet is at once an insertion-ordered list of unique items and a set.

Spec: specs/iset/ISet.tla, ISetMC (graph), ISetTrace.
"""
import json
import os
import random
import sys
import time

from harness import core
from harness.core import SPECS, Graph, Stats, Verdict, tlc_must_pass, GenericAdapter

PROP = "C11"
META = {
    "technique": "TLA+ reference spec (ISet.tla: injective sequence with Python index/slice semantics and ordered set algebra) model-checked by TLC; full state graph replayed on IndexedSet with every operand type and call form; long removal-heavy histories validated by TLC (ISetTrace.tla)",
    "level_text": "TLC checks list/set consistency and the set-algebra clauses on the bounded model; every transition (method, operator, reflected and in-place forms; list/tuple/set/frozenset/IndexedSet operands) is executed on the real class and all reads - iteration, every valid index, every slice with positive step, index, count, reversed - are compared after each; histories of thousands of operations over hundreds of items, crossing the dead-index thresholds, are validated by TLC.",
    "level_note": "Bounds in specs/iset/*.cfg (4-5 items, <=2 operands in the graph). Only indexes/slices valid for a list of the same length and positive steps are judged, as the property says. No proof about the Python source.",
}
SPECDIR = SPECS / "iset"
NONE = 1000000
ODD_ITEM = 2999
CONCS = {"int": lambda i: i, "str": lambda i: "i%05d" % i, "tuple": lambda i: (i, "x")}


def bounds(n):
    return list(range(-n - 1, n + 2)) + [None]


class Idx:
    """an integer-like slice bound (anything with __index__ is accepted by list slicing)"""
    def __init__(self, v):
        self.v = v

    def __index__(self):
        return self.v


def spell(v, n, r):
    """another spelling of the slice bound v for a sequence of n items that a list treats exactly like v: a bound past
    either end is as good as any bound further out (beyond the machine word too), and every bound may be an object with
    __index__. r in [0, 1) picks."""
    if v is None:
        return None
    if v >= n and r < 0.3:
        return [2 ** 63, sys.maxsize, 10 ** 30, sys.maxsize + 1][int(r * 40) % 4]
    if v <= -n and r < 0.3:
        return [-2 ** 63, -sys.maxsize - 1, -10 ** 30, -sys.maxsize - 2][int(r * 40) % 4]
    if r > 0.8:
        return Idx(v)
    return v


class Driver(GenericAdapter):
    subject = "setutils.IndexedSet"

    def __init__(self, conc, U):
        self.name = conc
        base_k = CONCS[conc]
        # item 2999 is of another type than all the others (it cannot be ordered against them): with it present sort() fails
        self.K = lambda i: frozenset(["odd-one-out"]) if i == ODD_ITEM else base_k(i)
        self.U = U
        self._tab = {self.K(i): i for i in range(1, 4100)}
        from boltons.setutils import IndexedSet
        self.cls = IndexedSet

    def dec(self, x):
        try:
            return self._tab.get(x, -999)
        except TypeError:
            return -999

    def fresh(self, st):
        return self.cls()

    def operand(self, seq, form):
        xs = [self.K(a) for a in seq]
        if form == "list":
            return xs
        if form == "tuple":
            return tuple(xs)
        if form == "iset":
            if self.trace_mode and len(xs) >= 1:
                # an operand with a history of its own: extra items added around the real ones and removed again (tombstones)
                o_ = self.cls([self.K(2900 + j) for j in range(9)] + xs[:1] + [self.K(2950)] + xs[1:])
                for j in range(9):
                    o_.remove(self.K(2900 + j)) if j % 2 else o_.discard(self.K(2900 + j))
                o_.remove(self.K(2950))
                return o_
            return self.cls(xs)
        if form == "set":
            return set(xs)
        if form == "frozenset":
            return frozenset(xs)
        raise core.MachineryError(form)

    trace_mode = False

    def setlike_ok(self, ops):
        # a set's iteration order is only predictable for small ints in ascending order
        # (when recording traces the operand's real iteration order is logged instead)
        return self.trace_mode or self.name == "int" and all(list(o) == sorted(set(o)) for o in ops)

    def variants(self, op):
        n, ops = op["op"], op["ops"]
        forms = ["list", "tuple", "iset"]
        if self.setlike_ok(ops):
            forms += ["set", "frozenset"]
        one = len(ops) == 1
        if n in ("update", "intersection_update", "difference_update", "symmetric_difference_update"):
            v = ["method:" + f for f in forms]
            if one:
                v += ["inplace-op:" + f for f in forms]
            if len(ops) == 2:
                v.append("method:mixed")
            return v
        if n in ("union", "intersection", "difference", "symmetric_difference"):
            v = ["method:" + f for f in forms]
            if one:
                v += ["op:" + f for f in forms]
                if n != "difference":
                    v += ["rop:" + f for f in forms if f != "iset"]
            if len(ops) == 2:
                v.append("method:mixed")
            return v
        if n == "rsub":
            return ["rop:set", "rop:frozenset"] if self.setlike_ok(ops) else []
        if n in ("issubset", "issuperset", "isdisjoint"):
            return ["method:" + f for f in forms]
        if n == "copy_ctor":
            # /twin keeps the new object untouched while the source lives on, /swap continues with the new object and
            # keeps the source untouched (observed by the walks after every later step)
            return ["ctor", "from_iterable", "slice", "ctor/twin", "slice/twin", "ctor/swap", "from_iterable/swap", "slice/swap"]
        return [None]

    def build_args(self, op, variant):
        how, form = (variant or "method:list").split(":") if variant and ":" in variant else ("method", "list")
        if form == "mixed":
            return [self.operand(op["ops"][0], "list"), self.operand(op["ops"][1], "iset")]
        return [self.operand(o, form) for o in op["ops"]]

    def step(self, s, op, variant, args=None):
        K, dec = self.K, self.dec
        n, x = op["op"], op["x"]
        got = {}
        try:
            v = []
            how, form = (variant or "method:list").split(":") if variant and ":" in variant else ("method", "list")
            if args is None:
                args = self.build_args(op, variant)
            if n == "add":
                s.add(K(x))
            elif n == "remove":
                s.remove(K(x))
            elif n == "discard":
                s.discard(K(x))
            elif n == "pop":
                v = [dec(s.pop() if x == NONE else s.pop(x))]
            elif n == "clear":
                s.clear()
            elif n in ("sort", "sort_failing"):
                s.sort()
            elif n == "sort_rev":
                s.sort(reverse=True)
            elif n == "sort_key":
                s.sort(key=lambda e_: dec(e_) % 3)
            elif n == "sort_key_rev":
                s.sort(key=lambda e_: dec(e_) % 3, reverse=True)
            elif n == "reverse":
                s.reverse()
            elif n in ("update", "intersection_update", "difference_update", "symmetric_difference_update"):
                if how == "method":
                    getattr(s, n)(*args)
                else:
                    s0 = s
                    if n == "update":
                        s |= args[0]
                    elif n == "intersection_update":
                        s &= args[0]
                    elif n == "difference_update":
                        s -= args[0]
                    else:
                        s ^= args[0]
                    if s is not s0:
                        v = [-5]
            elif n in ("union", "intersection", "difference", "symmetric_difference", "rsub"):
                src = s
                before = [dec(e) for e in src]
                if how == "method":
                    res = getattr(src, n)(*args)
                elif how == "op":
                    res = (src | args[0]) if n == "union" else (src & args[0]) if n == "intersection" else \
                          (src - args[0]) if n == "difference" else (src ^ args[0])
                else:
                    res = (args[0] | src) if n == "union" else (args[0] & src) if n == "intersection" else \
                          (args[0] - src) if n == "rsub" else (args[0] ^ src)
                if n == "rsub":
                    if type(res) is not type(args[0]):
                        v = [-5]
                    res = self.cls(sorted(res, key=dec))
                elif type(res) is not self.cls:
                    v = [-5]
                    res = self.cls(res)
                if [dec(e) for e in src] != before:
                    v = [-6]
                if not self.trace_mode:           # (traces re-read the source through the following events)
                    got["also_f"] = [self.observe(src, None)]
                s = res
            elif n in ("issubset", "issuperset", "isdisjoint"):
                v = [1 if getattr(s, n)(args[0]) else 0]
            elif n == "copy_ctor":
                src = s
                how, _, keep = (variant or "ctor").partition("/")
                c = self.cls(src) if how == "ctor" else self.cls.from_iterable(src) if how == "from_iterable" else src[:]
                got["also_t"] = [self.observe(c, None)]
                if keep == "twin":
                    got["twin"] = c
                elif keep == "swap":
                    got["twin"] = src
                    s = c
                else:
                    c.add(K(7))
                    c.discard(K(1))
            else:
                raise core.MachineryError("op " + n)
            r = {"e": "ok", "v": v}
        except (core.Hang, core.MachineryError):
            raise
        except Exception as ex:
            r = {"e": core.exc_name(ex), "v": []}
        got["r"] = r
        return s, got

    def observe(self, s, got):
        dec, K = self.dec, self.K
        o = {}
        try:
            it = [dec(e) for e in s]
            n = len(s)
            o["iter"] = it
            o["len"] = n
            o["reversed"] = [dec(e) for e in reversed(s)]
            o["contains"] = [K(a) in s for a in range(1, self.U + 1)]
            o["count"] = [s.count(K(a)) for a in range(1, self.U + 1)]
            idx = []
            for a in range(1, self.U + 1):
                try:
                    idx.append(s.index(K(a)))
                except ValueError:
                    idx.append(-1)
            o["index"] = idx
            o["getitem"] = [dec(s[i]) for i in range(-n, n)]
            sl = []
            wf = True
            bs = bounds(n)
            for a in bs:
                for b in bs:
                    for k in (None, 1, 2, 3):
                        h_ = (hash((a, b, k, n)) % 1000) / 1000.0
                        part = s[spell(a, n, h_):spell(b, n, (h_ * 7) % 1):(Idx(k) if k and h_ > 0.9 else k)]
                        if type(part) is not self.cls:
                            wf = "slice-type"
                        sl.append([dec(e) for e in part])
            o["slices"] = sl
            same = self.cls(list(s))
            o["eq_same"] = bool(s == same) and (n < 2 or not (s == self.cls(reversed(list(s)))))
            o["eq_set"] = bool(s == set(s)) and not (s == set(list(s) + [K(2999)]))
            if not isinstance(repr(s), str) or len(it) != n:
                wf = "repr/len"
            o["wf"] = wf
        except core.Hang:
            raise
        except Exception as ex:
            o["raised"] = core.exc_name(ex)
        return o


# ------------------------------------------------------------------ traces

EMPTY_READS = {"len": 0, "getitem": [], "index": [], "slices": [], "hasfull": False, "full": [], "fullrev": []}


def reads(s, rng, drv, nitems, last_added, want_full):
    """Sampled reads of one object: len, s[i], index()/count()/membership, slices, now and then the full order."""
    K, dec = drv.K, drv.dec
    ev = {"len": 0, "getitem": [], "index": [], "slices": [], "hasfull": False, "full": [], "fullrev": []}
    try:
        n = ev["len"] = len(s)
        for i_ in ([rng.randrange(-n, n) for _ in range(3)] + [-1, n - 1, n // 2] if n else []):
            ev["getitem"].append([i_, dec(s[i_])])
        for x_ in [rng.randint(1, nitems), rng.randint(1, nitems), last_added] + ([dec(s[-1])] if n else []):
            try:
                ev["index"].append([x_, s.index(K(x_))])
            except ValueError:
                ev["index"].append([x_, -1])
            if (K(x_) in s) != (ev["index"][-1][1] >= 0) or s.count(K(x_)) != int(K(x_) in s):
                ev["index"][-1][1] = -7
        for _ in range(3):
            a = rng.choice([None, rng.randint(-n - 1, n + 1)])
            b = rng.choice([None, rng.randint(-n - 1, n + 1)])
            k_ = rng.choice([None, 1, 1, 2, 3, 7])
            ev["slices"].append([[NONE if a is None else a, NONE if b is None else b, NONE if k_ is None else k_],
                                 [dec(e) for e in s[spell(a, n, rng.random()):spell(b, n, rng.random()):k_]]])
        if want_full:
            ev["hasfull"] = True
            ev["full"] = [dec(e) for e in s]
            ev["fullrev"] = [dec(e) for e in reversed(s)]
    except core.Hang:
        raise
    except Exception as ex:
        ev["len"] = -1
        ev["why"] = core.exc_name(ex)
    return ev


def record(ntraces, length, seed, nitems):
    rng = random.Random(seed)
    traces = []
    for t in range(ntraces):
        drv = Driver(rng.choice(["int", "str", "tuple"]), 1)
        s = drv.fresh(None)
        K, dec = drv.K, drv.dec
        evs = []
        phase = "grow"
        queue = []           # scripted follow-up operations (runs of adjacent removals, tail pops, re-adds)
        last_added = 1
        twin, twin_age = None, 0
        phase_left = rng.randint(40, 200)
        prefill = t % 2 == 1
        for i in range(length):
            n = len(s)
            # phases follow a schedule (sizes alone never left the first one: growth by random picks saturates early)
            phase_left -= 1
            if phase_left <= 0:
                phase = rng.choice(["grow", "shrink", "shrink-front", "shrink-back", "churn", "churn"])
                phase_left = rng.randint(60, 260)
            if n < 6:
                phase = "grow"
            c = rng.random()
            op = {"op": "add", "x": 0, "ops": []}
            if prefill and i == 0:
                # every other history starts from a well filled set (one bulk update), so that the removal phases work on
                # hundreds of items
                queue.append({"op": "update", "x": 0, "ops": [rng.sample(range(1, nitems + 1), int(nitems * 0.7))]})
            if not queue and n >= 8 and rng.random() < 0.08:
                # deletion patterns the dead-index table is sensitive to: a run of adjacent positions removed in
                # descending or ascending order (anywhere, near the front, near the back), then the tail, then new items
                run = rng.randint(2, 5)
                where = rng.choice(["any", "front", "back", "back"])
                hi = rng.randrange(run, n) if where == "any" else (run + rng.randint(0, 2) if where == "front" else n - 1 - rng.randint(0, 3))
                hi = max(run - 1, min(n - 1, hi))
                try:
                    items = [dec(s[j]) for j in range(hi - run + 1, hi + 1)]
                except Exception:      # a corrupted object shows up in this event's probes; keep generating
                    items = []
                if rng.random() < 0.6:
                    items.reverse()
                kind = rng.choice(["remove", "discard", "popidx"])
                for it_ in items:
                    queue.append({"op": "remove" if kind != "discard" else "discard", "x": it_, "ops": []})
                for _ in range(rng.randint(0, 4)):
                    queue.append({"op": "pop", "x": NONE, "ops": []})
                for _ in range(rng.randint(1, 3)):
                    queue.append({"op": "add", "x": rng.randint(1, nitems), "ops": []})
            if queue:
                op = queue.pop(0)
                if op["op"] in ("remove",) and K(op["x"]) not in s:
                    op = {"op": "discard", "x": op["x"], "ops": []}
            elif phase == "grow" and c < 0.75 or phase == "churn" and c < 0.4:
                op = {"op": "add", "x": rng.randint(1, nitems), "ops": []}
            elif c < 0.9 and n:
                live = None
                if phase == "shrink-front":
                    pos = min(n - 1, int(rng.random() ** 3 * n))
                elif phase == "shrink-back":
                    pos = max(0, n - 1 - int(rng.random() ** 3 * n))
                else:
                    pos = rng.randrange(n)
                kind = rng.choice(["remove", "discard", "pop", "pop"])
                if kind == "pop":
                    op = {"op": "pop", "x": rng.choice([pos, pos - n, NONE if rng.random() < 0.2 else pos]), "ops": []}
                else:
                    try:
                        at = dec(s[pos])
                    except Exception:
                        at = rng.randint(1, nitems)
                    op = {"op": kind, "x": at if rng.random() < 0.9 else rng.randint(1, nitems), "ops": []}
            elif c < 0.97:
                k = rng.choice(["update", "update", "difference_update", "intersection_update", "symmetric_difference_update", "discard"])
                if k == "discard":
                    op = {"op": "discard", "x": rng.randint(1, nitems), "ops": []}
                elif k == "intersection_update":
                    keep = [dec(e) for e in list(s) if rng.random() < 0.9]
                    op = {"op": k, "x": 0, "ops": [keep]}
                elif k == "symmetric_difference_update":
                    op = {"op": k, "x": 0, "ops": [sorted(set(rng.randint(1, nitems) for _ in range(rng.randint(0, 4))))]}
                else:
                    op = {"op": k, "x": 0, "ops": [[rng.randint(1, nitems) for _ in range(rng.randint(0, 4))] for _ in range(rng.randint(1, 2))]}
            else:
                op = {"op": rng.choice(["sort", "reverse", "clear"] if rng.random() < 0.2 else ["reverse", "sort", "sort_rev", "sort_key", "sort_key_rev"]), "x": 0, "ops": []}
            if not queue and rng.random() < 0.02 and n >= 3:
                op = {"op": "add", "x": ODD_ITEM, "ops": []}
                queue.append({"op": "sort", "x": 0, "ops": []})
                queue.append({"op": rng.choice(["remove", "discard"]), "x": ODD_ITEM, "ops": []})
            if op["op"] in ("sort", "sort_rev") and K(ODD_ITEM) in s and len(s) > 1:
                op = {"op": "sort_failing", "x": 0, "ops": []}      # the comparison raises: TypeError, and the set stays a set
            pure = False
            if not queue and rng.random() < 0.07:
                # operations that build a new set or only answer a question, on the object as it is now (holes and all):
                # the event's reads are those of the RESULT; the history goes on with the object itself
                k = rng.choice(["union", "intersection", "difference", "symmetric_difference", "issubset", "issuperset", "isdisjoint"])
                cur_ = [dec(e) for e in list(s)]
                some = [x_ for x_ in cur_ if rng.random() < 0.5][:40] + [rng.randint(1, nitems) for _ in range(rng.randint(0, 4))]
                rng.shuffle(some)
                nops = 1 if k in ("symmetric_difference", "issubset", "issuperset", "isdisjoint") else rng.randint(1, 3)
                op = {"op": k, "x": 0, "ops": [some] + [[rng.randint(1, nitems) for _ in range(rng.randint(0, 5))] for _ in range(nops - 1)]}
                if k == "issubset" and rng.random() < 0.5:
                    op["ops"] = [cur_ + some]
                pure = True
            if op["op"] == "add":
                last_added = op["x"]
            drv.trace_mode = True
            variant = rng.choice(drv.variants(op))
            args = drv.build_args(op, variant)
            if len(op["ops"]) == 1 and variant and not variant.startswith("rop") and rng.random() < 0.06 and \
                    op["op"] in ("update", "difference_update", "intersection_update", "symmetric_difference_update", "union", "intersection",
                                 "difference", "symmetric_difference", "issubset", "issuperset", "isdisjoint"):
                args = [s]          # the object itself as the operand (s ^= s, s -= s, s.issubset(s), ...)
            # the specification takes operands as the sequence in which they iterate
            op["ops"] = [[dec(e) for e in a] for a in args]
            s_before = s
            s, got = drv.step(s, op, variant, args=args)
            ev = {"op": op, "variant": variant or "", "r": got["r"], "fork": False, "hastwin": False, "twin": dict(EMPTY_READS), "pure": pure}
            ev.update(reads(s, rng, drv, nitems, last_added, pure or op["op"] == "sort_failing" or i % 40 == 39 or i == length - 1))
            if pure:
                s = s_before
            # a second object made from this one (constructor, from_iterable, full slice, operator) must stay what it
            # was while the other one keeps changing: the trace continues on one of the two, the other is probed
            if twin is None and not pure and ev["len"] >= 4 and rng.random() < 0.05:
                form = rng.choice(["ctor", "ctor", "from_iterable", "slice", "or-empty", "sub-empty"])
                try:
                    c_ = drv.cls(s) if form == "ctor" else drv.cls.from_iterable(s) if form == "from_iterable" else s[:] if form == "slice" else \
                        (s | drv.cls()) if form == "or-empty" else (s - [])
                    ev["fork"], ev["forkform"] = True, form
                    ev.update(reads(s, rng, drv, nitems, last_added, True))
                    if rng.random() < 0.5:
                        twin = c_
                    else:
                        twin, s = s, c_
                    twin_age = 0
                except core.Hang:
                    raise
                except Exception as ex:
                    ev["len"], ev["why"] = -1, "fork:" + core.exc_name(ex)
            elif twin is not None:
                ev["hastwin"] = True
                ev["twin"] = reads(twin, rng, drv, nitems, last_added, twin_age % 4 == 0)
                twin_age += 1
                if twin_age > 30:
                    twin = None
            evs.append(ev)
        traces.append({"conc": drv.name, "nitems": nitems, "ev": evs})
    return traces


def record_compaction(seed, conc="int"):
    """One long-hole history at real size: thousands of items, every 9th removed (more than 384 separate dead intervals
    while they are still few against the whole: the table-length trigger of the compaction, not the ratio one), then the
    tail and the front trimmed, new items, and reads all along."""
    rng = random.Random(seed)
    drv = Driver(conc, 1)
    s = drv.fresh(None)
    K, dec = drv.K, drv.dec
    nitems = 3990
    evs = []

    def do(op, full=False, sparse=True):
        nonlocal s
        variant = drv.variants(op)[0]
        args = drv.build_args(op, variant)
        op["ops"] = [[dec(e) for e in a] for a in args]
        s, got = drv.step(s, op, variant, args=args)
        ev = {"op": op, "variant": variant or "", "r": got["r"], "fork": False, "hastwin": False, "twin": dict(EMPTY_READS), "pure": False}
        ev.update(reads(s, rng, drv, nitems, 1, full) if (full or not sparse or rng.random() < 0.1) else
                  dict(EMPTY_READS, len=len(s)))
        evs.append(ev)
    drv.trace_mode = True
    order = [x for x in range(1, nitems + 1) if x != ODD_ITEM]
    do({"op": "update", "x": 0, "ops": [order]}, full=True)
    # every 10th item: 399 separate holes in 3989 slots - the 385th interval comes while the dead are still fewer than an
    # eighth of the slots, so it is the table length that triggers the compaction
    victims = order[5::10]
    for x in victims:
        do({"op": "remove", "x": x, "ops": []})
    do({"op": "discard", "x": 1, "ops": []}, full=True)
    for x in order[2::27][:80]:
        do({"op": "remove" if K(x) in s else "discard", "x": x, "ops": []})
    do({"op": "add", "x": 1, "ops": []}, full=True)
    for _ in range(30):
        do({"op": "pop", "x": rng.choice([NONE, 0, -1, len(s) // 2]), "ops": []}, sparse=False)
    do({"op": "add", "x": 2, "ops": []}, full=True)
    return [{"conc": drv.name, "nitems": nitems, "ev": evs}]


def impl_shape(stats, thorough, seed):
    """ISetDead.tla: the tombstone / dead-interval mechanism, model-checked for every history within its bounds (with the
    pre-repair trimming as negative control), then bound to the code's private state when that still has this shape.
    Returns 'conforms' | 'drift' | 'absent'. Drift is not a violation of C11 (the property is about public behaviour); it
    makes the behavioural exploration below wider."""
    for cfg in (["ISetDead_thorough.cfg"] if thorough else ["ISetDead_quick.cfg"]) + ["ISetDead_cf2.cfg"]:
        stats.add_tlc(tlc_must_pass(SPECDIR, "ISetDead.tla", cfg, workers=core.NCPU, timeout=2400))
    neg = core.tlc(SPECDIR, "ISetDead.tla", "ISetDead_unrepaired.cfg", workers=core.NCPU, timeout=600)
    if neg.ok or neg.invariant_violated not in ("InvIntervals", "InvTranslation"):
        raise core.MachineryError("ISetDead negative control: the pre-repair trimming was not rejected by TLC")
    stats.extra["mechanism_model_negative_control"] = "pre-repair right-edge trimming violates " + neg.invariant_violated
    core.repo_on_path()
    from boltons import setutils
    probe = setutils.IndexedSet()
    if not all(hasattr(probe, a) for a in ("item_list", "dead_indices", "item_index_map")) or not hasattr(setutils, "_MISSING"):
        return "absent"
    traces = []
    try:
        for t in range(16 if thorough else 8):
            rng = random.Random(seed * 1000 + t)
            s_, evs = setutils.IndexedSet(), []
            grow = rng.choice([20, 120, 300])
            for _ in range(1500 if thorough else 500):
                n = len(s_)
                c = rng.random()
                if n < grow or c < 0.45:
                    x = rng.randint(1, 700)
                    if x in s_:
                        continue
                    s_.add(x)
                    op = {"op": "add", "x": x}
                elif c < 0.75:
                    x = s_[rng.randrange(n)] if rng.random() < 0.7 else s_[min(n - 1, rng.randrange(n) // 4)]
                    s_.remove(x)
                    op = {"op": "remove", "x": x}
                else:
                    i = rng.randrange(n)
                    s_.pop(i)
                    op = {"op": "pop", "x": i}
                op["il"] = [0 if e is setutils._MISSING else e for e in s_.item_list]
                op["dead"] = [[int(d[0]), int(d[1])] for d in s_.dead_indices]
                evs.append(op)
            traces.append({"ev": evs})
    except Exception as ex:
        stats.extra["mechanism_binding_note"] = "recording the private state failed: " + core.exc_name(ex)
        return "drift"
    import tempfile
    import shutil
    td = tempfile.mkdtemp(prefix="c11isd-")
    try:
        tf = os.path.join(td, "traces.json")
        with open(tf, "w") as f:
            json.dump(traces, f)
        r = core.tlc(SPECDIR, "ISetDeadTrace.tla", "ISetDeadTrace.cfg", workers=1, timeout=1200, env={"TRACE_FILE": tf})
    finally:
        shutil.rmtree(td, ignore_errors=True)
    accepted = sum(1 for l_ in r.out.splitlines() if l_.startswith('<<"ACCEPT"'))
    stats.extra["mechanism_binding"] = {"private_state_traces": len(traces), "events": sum(len(t_["ev"]) for t_ in traces), "accepted_by_ISetDeadTrace": accepted,
                                        "max_dead_intervals_seen": max([len(e["dead"]) for t_ in traces for e in t_["ev"]] or [0])}
    if r.ok and accepted == len(traces):
        return "conforms"
    drift = [l_ for l_ in r.out.splitlines() if l_.startswith('<<"DRIFT"')]
    stats.extra["mechanism_binding_note"] = (drift[0][:600] if drift else "invariant %s violated on the recorded private state" % r.invariant_violated)
    return "drift"


def main(tier, seed):
    t0 = time.time()
    stats, verdict = Stats(), Verdict(PROP, tier, seed)
    thorough = tier == "thorough"
    shape = impl_shape(stats, thorough, seed)
    stats.extra["mechanism_binding_result"] = shape
    stats.add_tlc(tlc_must_pass(SPECDIR, "ISetMC.tla", "ISetMC_thorough.cfg" if thorough else "ISetMC.cfg", workers=core.NCPU, timeout=2400))
    r = tlc_must_pass(SPECDIR, "ISetMC.tla", "ISetGen_thorough.cfg" if thorough else "ISetGen.cfg", workers=1, timeout=2400, heap="8g")
    stats.add_tlc(r)
    g = Graph(r)
    U = 5 if thorough else 4
    stats.extra["graph_states"], stats.extra["graph_edges"] = len(g.states), g.n_edges
    for cn in (["int", "str", "tuple"] if thorough else ["int", "str"]):
        core.replay_graph_generic(g, Driver(cn, U), verdict, stats)
    core.replay_walks(g, Driver("int", U), verdict, stats, n_walks=4000 if thorough else 500, length=30, seed=seed)
    canary(stats)
    traces = record(16, 1500, seed, 600) + record(16, 400, seed + 1, 40) if not thorough else \
        record(48, 6000, seed, 600) + record(32, 2000, seed + 1, 60) + record(8, 20000, seed + 2, 2500)
    traces += record_compaction(seed)
    if thorough:
        traces += record_compaction(seed + 1, "str")
    if shape != "conforms":
        # the list side is no longer the mechanism that was model-checked: widen the behavioural exploration
        traces += record(32, 1500, seed + 7, 600) + record(16, 1500, seed + 8, 120)
    core.validate_traces_generic(SPECDIR, "ISetTrace.tla", "ISetTrace.cfg", traces, stats, verdict, Driver.subject,
                                 shards=min(core.NCPU, len(traces)))
    stats.extra["second_objects_forked_in_traces"] = sum(1 for t_ in traces for e in t_["ev"] if e["fork"])
    stats.extra["twin_probe_events"] = sum(1 for t_ in traces for e in t_["ev"] if e["hastwin"])
    stats.sample({"trace_first_events": [{k: e[k] for k in ("op", "r", "len", "getitem", "slices")} for e in traces[0]["ev"][:3]]})
    rc = verdict.finish()
    core.write_evidence(PROP, tier, seed, stats.coverage(
        "graph: every (state, op, call form, operand type) group of the bounded IndexedSet model executed from a fresh object "
        "along a shortest path, comparing the result and all reads incl. every valid index and every positive-step slice; "
        "traces: removal-heavy histories over up to 600 (thorough 2500) items crossing the dead-index thresholds, validated by TLC "
        "with sampled index/slice/index() probes per event and full order every 40 events. distinct_nontrivial = distinct "
        "(state, op) groups that changed state or raised.", True),
        ["bounds: see specs/iset/*.cfg", "set/frozenset operands only where their iteration order is predictable (small ints ascending)",
         "invalid indexes and negative steps are outside the property and not generated"],
        time.time() - t0, len(verdict.violations))
    return rc


def canary(stats):
    tr = record(2, 30, 4242, 10)
    bad = json.loads(json.dumps(tr[1]))
    for ev in bad["ev"][5:]:
        if ev["getitem"]:
            ev["getitem"][0][1] += 1
            break
    v = Verdict(PROP, "canary", 0)
    v.findings.entries = []
    s = Stats()
    core.validate_traces_generic(SPECDIR, "ISetTrace.tla", "ISetTrace.cfg", [tr[0], bad], s, v, "canary", shards=1)
    if s.traces_accepted == 0:
        return
    if s.traces_accepted != 1 or len(v.violations) != 1:
        raise core.MachineryError("trace canary: an altered s[i] probe was not rejected")
    stats.extra["canary"] = "altered s[i] probe in a recorded trace rejected by TLC"


def replay(path):
    case = json.load(open(path))["case"]
    print(json.dumps(case, indent=1, default=str)[:6000])
    return 0
