"""C19 - line readers split exactly at line boundaries, for every text and block size.

Spec: specs/lines/Lines.tla (SplitLines / IterSplitlines / RevRef / block machine), LinesMC (rows + laws).
"""
import io
import itertools
import json
import multiprocessing as mp
import os
import random
import shutil
import tempfile
import time

from harness import core
from harness.core import SPECS, Stats, Verdict, tlc_must_pass

PROP = "C19"
META = {
    "technique": "TLA+ reference of str.splitlines-style scanning and of backwards line reading (with a block machine checked by TLC to be block-size independent); every (text) and (content, blocksize) row replayed on iter_splitlines and reverse_iter_lines over BytesIO, binary and text-mode files; JSONLIterator forward vs reverse over generated JSON Lines files with small block sizes",
    "level_text": "TLC checks on every text up to length 3-4 over ordinary characters, digits, space and all eight line-break forms that lines never contain a break and the final-empty-string rule, and on every content up to 4-5 units (incl. a 2-byte character and \\r\\n) and block sizes 1..8 that the block-wise reader equals the reference; each row is replayed on the real functions. JSON Lines files built from object / blank / corrupt lines are read forwards and backwards with _blocksize 1..8 and the shipped value.",
    "level_note": "The reference SplitLines is compared with the interpreter's str.splitlines on every row (machinery fault if they differ). For empty content both [] and [''] are accepted from reverse_iter_lines. JSONLIterator._blocksize is lowered on the instance's class attribute path by the harness.",
}
SPECDIR = SPECS / "lines"


def txt(cps):
    return "".join(chr(c) for c in cps)


def cps(s):
    return [ord(c) for c in s]


def run_row(row, tmpdir):
    bad = []
    if row["kind"] == "splitlines":
        from boltons import strutils
        t = txt(row["t"])
        exp = [txt(l) for l in row["out"]]
        ref = t.splitlines() + ([""] if t and t[-1] in "\n\r\x0b\x0c\x85  " else [])
        if ref != exp and not any(c in t for c in "\x1c\x1d\x1e"):       # (str.splitlines also breaks at FS / GS / RS)
            raise core.MachineryError("TLA+ IterSplitlines disagrees with str.splitlines on %r" % (t,))
        try:
            got = list(strutils.iter_splitlines(t))
        except Exception as ex:
            got = "raised:" + core.exc_name(ex)
        if got != exp:
            bad.append(("iter_splitlines", got if isinstance(got, str) else [cps(x) for x in got]))
        return bad
    from boltons import jsonutils
    content = bytes(row["t"])
    exp = [bytes(l) for l in row["out"]]
    bs = row["bs"]
    alts = [exp] if content else [[], [b""]]
    path = os.path.join(tmpdir, "c.bin")
    with open(path, "wb") as f:
        f.write(content)

    def chk(label, thunk, decode):
        try:
            got = list(thunk())
        except Exception as ex:
            bad.append((label, "raised:" + core.exc_name(ex)))
            return
        want = [[l.decode("utf-8") for l in a] for a in alts] if decode else alts
        if got not in want:
            bad.append((label, [list(x.encode("utf-8") if isinstance(x, str) else x) for x in got]))
    chk("BytesIO", lambda: jsonutils.reverse_iter_lines(io.BytesIO(content), blocksize=bs), False)
    fb = open(path, "rb")        # reverse_iter_lines detaches buffered readers too: no `with`
    chk("binary-file", lambda: jsonutils.reverse_iter_lines(fb, blocksize=bs), False)
    try:
        content.decode("utf-8")
        f = open(path, encoding="utf-8", newline="")      # reverse_iter_lines detaches the text wrapper: no `with`
        chk("text-file", lambda: jsonutils.reverse_iter_lines(f, blocksize=bs), True)
    except UnicodeDecodeError:
        pass
    # a text-mode file opened with the BOM-skipping codec: the mark is dropped at the start of the FILE only (as by the
    # file's own read()); a line that begins with U+FEFF further down keeps it
    if bs in (1, 2, 3):
        try:
            want_sig = [[l.decode("utf-8") for l in a] for a in alts]
            for a_ in want_sig:
                if a_ and a_[-1][:1] == "\ufeff":
                    a_[-1] = a_[-1][1:]
            fs_ = open(path, encoding="utf-8-sig", newline="")
            try:
                got_ = list(jsonutils.reverse_iter_lines(fs_, blocksize=bs))
                if got_ not in want_sig:
                    bad.append(("text-file/utf-8-sig", [list(x.encode("utf-8") if isinstance(x, str) else x) if isinstance(x, (str, bytes)) else repr(x) for x in got_]))
            except Exception as ex:
                bad.append(("text-file/utf-8-sig", "raised:" + core.exc_name(ex)))
        except UnicodeDecodeError:
            pass
    # other encodings: a text-mode file in a single-byte encoding, and the encoding= argument on binary input
    if bs in (1, 2):
        for enc_ in ("latin-1", "cp1252"):
            try:
                want_ = [[l.decode(enc_) for l in a] for a in alts]
            except UnicodeDecodeError:
                continue
            for label, mk in (("text-file/" + enc_, lambda: open(path, encoding=enc_, newline="")),
                              ("BytesIO/encoding=" + enc_, None)):
                try:
                    got_ = list(jsonutils.reverse_iter_lines(mk(), blocksize=bs) if mk else
                                jsonutils.reverse_iter_lines(io.BytesIO(content), blocksize=bs, encoding=enc_))
                except Exception as ex:
                    bad.append((label, "raised:" + core.exc_name(ex)))
                    continue
                if got_ not in want_:
                    bad.append((label, [list(x.encode("utf-8") if isinstance(x, str) else x) if isinstance(x, (str, bytes)) else repr(x) for x in got_]))
    # a reader standing in mid-file (preseek=False): the lines of what lies before the cursor
    if bs in (2, 5) and len(content) > 1 and "pre" in row:
        for k_, exp_ in row["pre"]:
            fk = open(path, "rb")
            fk.seek(k_)
            try:
                got_ = list(jsonutils.reverse_iter_lines(fk, blocksize=bs, preseek=False))
            except Exception as ex:
                bad.append(("preseek=False@%d" % k_, "raised:" + core.exc_name(ex)))
                continue
            if got_ != [bytes(l) for l in exp_] and not (k_ == 0 and got_ in ([], [b""])):
                bad.append(("preseek=False@%d" % k_, [list(x) for x in got_]))
    # the same content just written through the very file object handed over (opened for update, not flushed by the caller)
    if bs in (1, 3):
        fw = open(os.path.join(tmpdir, "w.bin"), "w+b")
        fw.write(content)
        chk("binary-file-just-written", lambda: jsonutils.reverse_iter_lines(fw, blocksize=bs), False)
        try:
            text_ = content.decode("utf-8")
            ft = open(os.path.join(tmpdir, "w.txt"), "w+", encoding="utf-8", newline="")
            ft.write(text_)
            chk("text-file-just-written", lambda: jsonutils.reverse_iter_lines(ft, blocksize=bs), True)
        except UnicodeDecodeError:
            pass
    if bs == 1:
        chk("BytesIO/default-blocksize", lambda: jsonutils.reverse_iter_lines(io.BytesIO(content)), False)
    return bad


def jsonl_cases(rng, n, maxlines):
    """JSON Lines files from object / blank / corrupt lines; forward result vs reverse result."""
    from boltons import jsonutils
    bad = []
    runs = 0
    d = tempfile.mkdtemp(prefix="c19-")
    try:
        for _ in range(n):
            big = _ % 10 == 9          # every tenth file is several blocks long for the shipped block size
            kinds = [rng.choice(["obj", "obj", "blank", "corrupt", "spaces", "badutf8", "falsy", "padded", "tabblank", "toodeep"])
                     for _ in range(rng.randint(300, 700) if big else rng.randint(0, maxlines))]
            ignore = rng.random() < 0.6
            if not ignore:
                kinds = [k for k in kinds if k not in ("corrupt", "badutf8", "toodeep")]
            if big:
                kinds = [k for k in kinds if k != "toodeep"]
            lines, objs = [], []
            for i, k in enumerate(kinds):
                if k == "obj":
                    o = {"id": i, "txt": rng.choice(["x", "hé", "a b", ""])}
                    lines.append(json.dumps(o, ensure_ascii=rng.random() < 0.5))
                    objs.append(o)
                elif k == "falsy":
                    # payloads that are falsy in Python are records like any other
                    o = rng.choice([{}, [], 0, None, "", False, 0.0])
                    lines.append(json.dumps(o))
                    objs.append(o)
                elif k == "padded":
                    o = {"id": i, "pad": True}
                    lines.append(rng.choice(["\t", "  ", " \t "]) + json.dumps(o) + rng.choice(["", " ", "\t\t"]))
                    objs.append(o)
                elif k == "tabblank":
                    lines.append(rng.choice(["\t", " \t ", "\x0c"]))
                elif k == "toodeep":
                    lines.append("[" * 6000)          # not a ValueError: the parser runs out of stack (skipped with ignore_errors)
                elif k == "blank":
                    lines.append("")
                elif k == "spaces":
                    lines.append("   ")
                elif k == "badutf8":
                    # a line that cannot even be decoded (a record cut inside a multi-byte character): binary mode only
                    lines.append(rng.choice([b'{"id": 1, "txt": "caf\xc3"}', b'{"a": "\xe2\x82"}', b'\xff\xfe{"a": 1}']))
                else:
                    lines.append('{"broken": ')
            blines = [l if isinstance(l, bytes) else l.encode("utf-8") for l in lines]
            sep_ = rng.choice([b"\n", b"\n", b"\r\n", None])
            if sep_ is None:            # both separators in one file
                data = b"".join(b_ + rng.choice([b"\n", b"\r\n"]) for b_ in blines[:-1]) + (blines[-1] if blines else b"")
                sep_ = b"\n"
            else:
                data = sep_.join(blines)
            data += (sep_ if lines and rng.random() < 0.7 else b"")
            text = data.decode("utf-8", "backslashreplace")
            path = os.path.join(d, "f.jsonl")
            with open(path, "wb") as f:
                f.write(data)
            modes = ("rb", "bytesio") if "badutf8" in kinds else ("r", "rb", "bytesio")
            try:
                # the same text in a single-byte codec, read in text mode with that codec
                with open(os.path.join(d, "f.latin1"), "wb") as f:
                    f.write(data.decode("utf-8").encode("latin-1"))
                modes = modes + ("r-latin1",) if "badutf8" not in kinds else modes
            except UnicodeError:
                pass
            for mode, bsz in itertools.product(modes, (0, 4096) if big else (0, 1, 2, 3, 5, 8, 4096)):
                runs += 1
                try:
                    kw = {} if mode == "rb" else {"encoding": "utf-8"}
                    if mode == "bytesio":
                        fwd = list(jsonutils.JSONLIterator(io.BytesIO(data), ignore_errors=ignore))
                        it = jsonutils.JSONLIterator(io.BytesIO(data), ignore_errors=ignore, reverse=True)
                        if bsz:
                            it._blocksize = bsz
                            it._line_iter = jsonutils.reverse_iter_lines(it._file_obj, blocksize=bsz, preseek=False)
                        rev = list(it)
                        if fwd != objs or rev != objs[::-1]:
                            bad.append(({"kinds": kinds, "mode": mode, "blocksize": bsz, "ignore_errors": ignore, "text": text},
                                        {"forward": fwd, "reverse": rev, "expected": objs}))
                        continue
                    if mode == "r-latin1":
                        mode, kw, path = "r", {"encoding": "latin-1"}, os.path.join(d, "f.latin1")
                    else:
                        path = os.path.join(d, "f.jsonl")
                    with open(path, mode, **kw) as f:
                        fwd = list(jsonutils.JSONLIterator(f, ignore_errors=ignore))
                    f = open(path, mode, **kw)
                    it = jsonutils.JSONLIterator(f, ignore_errors=ignore, reverse=True)
                    # block size of the reverse reader: rebuild its line iterator with the small block size
                    if bsz:           # (0: the iterator exactly as the constructor built it)
                        it._blocksize = bsz
                        it._line_iter = jsonutils.reverse_iter_lines(it._file_obj, blocksize=bsz, preseek=False)
                    rev = list(it)
                except Exception as ex:
                    bad.append(({"kinds": kinds, "mode": mode, "blocksize": bsz, "ignore_errors": ignore}, "raised:" + core.exc_name(ex)))
                    continue
                if fwd != objs or rev != objs[::-1]:
                    bad.append(({"kinds": kinds, "mode": mode, "blocksize": bsz, "ignore_errors": ignore, "text": text},
                                {"forward": fwd, "reverse": rev, "expected": objs}))
    finally:
        shutil.rmtree(d, ignore_errors=True)
    return bad, runs


def _work(rows):
    d = tempfile.mkdtemp(prefix="c19w-")
    res = []
    try:
        for row in rows:
            for label, got in run_row(row, d):
                res.append((row, label, got))
    except core.MachineryError as ex:
        return ("machinery", str(ex))
    finally:
        shutil.rmtree(d, ignore_errors=True)
    return ("ok", res, len(rows))


def main(tier, seed):
    t0 = time.time()
    stats, verdict = Stats(), Verdict(PROP, tier, seed)
    thorough = tier == "thorough"
    r = tlc_must_pass(SPECDIR, "LinesMC.tla", "LinesMC_thorough.cfg" if thorough else "LinesMC.cfg", workers=1, timeout=3000, heap="8g")
    stats.add_tlc(r)
    rows = r.payloads("T")
    stats.extra["rows"] = len(rows)
    parts = [rows[i::core.NCPU * 2] for i in range(core.NCPU * 2)]
    with mp.get_context("fork").Pool(core.NCPU) as pool:
        res = pool.map(_work, parts)
    for x in res:
        if x[0] == "machinery":
            raise core.MachineryError(x[1])
        stats.edges_executed += x[2]
        for row, label, got in x[1]:
            t = row["t"]
            if row["kind"] == "splitlines":
                sig = {"subject": "strutils.iter_splitlines", "op": "iter_splitlines",
                       "has_u2028_9": any(c in (8232, 8233) for c in t), "has_space_digit": 32 in t and (50 in t)}
            else:
                sig = {"subject": "jsonutils.reverse_iter_lines", "op": "reverse_iter_lines", "variant": label.split("/")[0]}
            verdict.fail(sig, {"row": row, "call": label, "observed": got})
    jb, runs = jsonl_cases(random.Random(seed), 400 if thorough else 60, 5)
    stats.edges_executed += runs
    stats.extra["jsonl_runs"] = runs
    for case, got in jb:
        verdict.fail({"subject": "jsonutils.JSONLIterator", "op": "forward-vs-reverse", "what": "raised" if isinstance(got, str) else "objects"},
                     {"case": case, "observed": got})
    probe = dict(next(x for x in rows if x["kind"] == "splitlines" and x["t"] == [97, 10, 97]))
    probe["out"] = [[97, 10, 97]]
    try:
        ok = bool(run_row(probe, "/tmp"))
    except core.MachineryError:
        ok = True
    if not ok:
        raise core.MachineryError("canary: altered reference row was not rejected")
    stats.extra["canary"] = "an altered reference row is rejected"
    stats.nontrivial = {core.canon([x["kind"], x["t"], x["bs"]]) for x in rows if any(c in (10, 13, 11, 12, 133, 8232, 8233) for c in x["t"])}
    for x in rows[:: max(1, len(rows) // 5)]:
        stats.sample(x)
    rc = verdict.finish()
    core.write_evidence(PROP, tier, seed, stats.coverage(
        "one TLC state per text (iter_splitlines) and per (content, blocksize) (reverse_iter_lines), laws and block-machine equivalence "
        "evaluated by TLC, each row replayed on the real functions over BytesIO / binary file / text-mode file; JSONL files from random "
        "object/blank/corrupt line sequences read forwards and backwards with block sizes 1..8 and 4096. distinct_nontrivial = rows "
        "containing at least one line break.", True),
        ["bounds: specs/lines/*.cfg", "str.splitlines taken from the interpreter (reference cross-checked)"], time.time() - t0, len(verdict.violations))
    return rc


def replay(path):
    case = json.load(open(path))["case"]
    print(json.dumps(case, indent=1)[:3000])
    return 0
