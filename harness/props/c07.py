"""C07 - URL.navigate implements RFC 3986 reference resolution, normalized result.

Spec: specs/uri/UriResolve.tla (RFC 3986 5.2.2-5.2.4, 5.3 transcribed), UriResolveMC (base x reference rows + laws).
"""
import json
import multiprocessing as mp
import time

from harness import core
from harness.core import SPECS, Stats, Verdict, tlc_must_pass

PROP = "C07"
META = {
    "technique": "TLA+ transcription of RFC 3986 section 5.2 (transform, merge, remove_dot_segments buffer loop, recomposition), anchored to the RFC's own examples by ASSUME and checked by TLC for the no-dot-segment / rooted / idempotence laws on every (base, reference) row; every row replayed through URL.navigate with the reference as text and as URL object, plus chaining, base immutability and normalize idempotence",
    "level_text": "TLC evaluates the RFC algorithm on 16 base shapes x every reference built from up to 2-3 segments over {a, b, '.', '..', empty} with leading/trailing slash, query and fragment options (and absolute references), checks the laws on the reference and exports the expected target text; the real navigate() must render exactly that target (empty path under an authority = '/'), leave the base untouched, chain like step-by-step resolution and normalize idempotently.",
    "level_note": "Segment alphabet and base shapes are bounded (specs/uri/UriResolveMC*.cfg). References with an authority but no scheme, and scheme-only references, are outside the statement and not generated. A present-but-empty query or fragment cannot be represented by the URL type: judged as narrowly matched known findings.",
}
SPECDIR = SPECS / "uri"


def t(cps):
    return "".join(chr(c) for c in cps)


def canon_text(u):
    """an empty path under an authority is the same as '/'"""
    import re
    m = re.match(r"^([a-z]+://[^/?#]*)([^?#]*)(.*)$", u)
    if m and m.group(2) == "":
        return m.group(1) + "/" + m.group(3)
    return u


def run_row(row):
    from boltons.urlutils import URL
    base, ref, target = t(row["base"]), t(row["ref"]), t(row["target"])
    ref2, target2 = t(row["ref2"]), t(row["target2"])
    bad = []
    # texts with an escaped percent sign are compared in the fully quoted rendering: minimal quoting leaves a decoded '%'
    # as it is, so it cannot render them (the round-trip property says as much)
    FQ = {"full_quote": True} if "%" in base + ref + ref2 else {}
    if FQ and not (base + ref + ref2).isascii():
        return []          # (full quoting would also IDNA-encode the host: escapes are combined with ASCII hosts only)

    def nav(label, thunk, want):
        try:
            got = thunk()
        except Exception as ex:
            bad.append((label, "raised:" + core.exc_name(ex), want))
            return None
        if canon_text(got) != canon_text(want):
            bad.append((label, got, want))
        return got
    b = URL(base)
    before = b.to_text(**FQ)
    nav("navigate(str)", lambda: b.navigate(ref).to_text(**FQ), target)
    nav("navigate(URL)", lambda: b.navigate(URL(ref)).to_text(**FQ), target)
    # a base that links to itself (the base object handed over as the reference), written with a dot segment and an upper-case
    # scheme so that normalising it in place would show: the base is left as it was, and so is a base that was used as
    # somebody else's reference before
    try:
        bb = URL(base)
        bb.path_parts = tuple(bb.path_parts) + ("x", "..", "y")
        bb.scheme = bb.scheme.upper()
        bb_before = (bb.to_text(**FQ), tuple(bb.path_parts), bb.scheme)
        bb.navigate(bb)
        URL("http://elsewhere.example/").navigate(bb)
        if (bb.to_text(**FQ), tuple(bb.path_parts), bb.scheme) != bb_before:
            bad.append(("base-modified-by-self-link", bb.to_text(**FQ), bb_before[0]))
    except Exception as ex:
        bad.append(("base-modified-by-self-link", "raised:" + core.exc_name(ex), base))
    # the same reference as an object put together piece by piece (query and fragment filled in after construction):
    # taken only when it renders to the very same reference text
    try:
        pr = URL(ref)
        r2 = URL(ref.split("#")[0].split("?")[0])
        for k, v in pr.query_params.items(multi=True):
            r2.query_params.add(k, v)
        r2.fragment = pr.fragment
        r3 = URL.from_parts(scheme=pr.scheme, host=pr.host, path_parts=pr.path_parts, query_params=pr.query_params, fragment=pr.fragment,
                            port=pr.port, username=pr.username, password=pr.password)
    except Exception:
        r2 = r3 = None
    for label, r_ in (("navigate(URL-ref-filled-in)", r2), ("navigate(URL-ref-from_parts)", r3)):
        if r_ is not None and r_.to_text(**FQ) == ref and not (row["rq"] or row["rf"]):
            nav(label, lambda r_=r_: b.navigate(r_).to_text(**FQ), target)
    if b.to_text(**FQ) != before or URL(base).to_text(**FQ) != before:
        bad.append(("base-modified", b.to_text(**FQ), before))
    # ... nor by what is done to the result afterwards (the result shares nothing with the base)
    try:
        r_ = b.navigate(ref)
        r_.query_params.add("zz", "1")
        r_.query_params["q"] = "changed"
        r_.path_parts = tuple(r_.path_parts) + ("more",)
        r_.fragment, r_.username = "elsewhere", "someone"
        if b.to_text(**FQ) != before:
            bad.append(("base-modified-through-result", b.to_text(**FQ), before))
    except Exception as ex:
        bad.append(("base-modified-through-result", "raised:" + core.exc_name(ex), before))
    # a long-lived base object: it has already served a navigation as another URL, then every component was re-assigned
    # (path through path_parts or through .path) - whatever it remembers from before must not show
    for how in ("path_parts", "path"):
        try:
            pb = URL(base)
            lived = URL("http://elsewhere.example:81/x/y/z?old=1#frag")
            lived.navigate("p/q")
            lived.navigate("../r")
            lived.scheme, lived.host, lived.port = pb.scheme, pb.host, pb.port
            lived.username, lived.password, lived.fragment = pb.username, pb.password, pb.fragment
            if how == "path_parts":
                lived.path_parts = pb.path_parts
            else:
                lived.path = pb.path
            lived.query_params.clear()
            for k_, v_ in pb.query_params.items(multi=True):
                lived.query_params.add(k_, v_)
            lived.family = pb.family
        except Exception:
            continue
        if lived.to_text(**FQ) == before:
            nav("navigate(reassigned-base/%s)" % how, lambda lived=lived: lived.navigate(ref).to_text(**FQ), target)
    # the same absolute base URL as an object built another way (unrooted path_parts via from_parts, path assigned as text):
    # taken only when it renders to the very same base text
    if len(b.path_parts) > 1 and b.path_parts[0] == "":
        alts = []
        try:
            alts.append(("navigate(from_parts-base)", URL.from_parts(scheme=b.scheme, host=b.host, path_parts=b.path_parts[1:], query_params=b.query_params,
                                                                     fragment=b.fragment, port=b.port, username=b.username, password=b.password)))
            b3 = URL(base)
            b3.path = b.path[1:]
            alts.append(("navigate(path-assigned-base)", b3))
        except Exception:
            alts = []
        for label, alt in alts:
            if alt.to_text(**FQ) == before:
                nav(label, lambda alt=alt: alt.navigate(ref).to_text(**FQ), target)
    if not (row["rq"] or row["rf"]):
        nav("chained", lambda: URL(base).navigate(ref).navigate(ref2).to_text(**FQ), target2)

        def norm_twice():
            u = URL(base).navigate(ref)
            u.normalize()
            t1 = u.to_text(**FQ)
            u.normalize()
            return t1 if u.to_text(**FQ) == t1 else "normalize-not-idempotent: %s -> %s" % (t1, u.to_text(**FQ))
        nav("normalize-idempotent", norm_twice, target)
    return bad


def _work(rows):
    out = []
    for row in rows:
        for label, got, want in run_row(row):
            out.append((row, label, got, want))
    return out, len(rows)


def main(tier, seed):
    t0 = time.time()
    stats, verdict = Stats(), Verdict(PROP, tier, seed)
    thorough = tier == "thorough"
    r = tlc_must_pass(SPECDIR, "UriResolveMC.tla", "UriResolveMC_thorough.cfg" if thorough else "UriResolveMC.cfg", workers=1, timeout=3000, heap="12g")
    stats.add_tlc(r)
    rows = r.payloads("T")
    stats.extra["rows"] = len(rows)
    parts = [rows[i::core.NCPU * 2] for i in range(core.NCPU * 2)]
    with mp.get_context("fork").Pool(core.NCPU) as pool:
        res = pool.map(_work, parts)
    for fails, n in res:
        stats.edges_executed += n
        for row, label, got, want in fails:
            ref = t(row["ref"])
            sig = {"subject": "urlutils.URL.navigate", "op": label.split("(")[0],
                   "ref_query": "present-empty" if row["rq"] else "other", "ref_fragment": "present-empty" if row["rf"] else "other"}
            # the narrow classes the URL type cannot represent: the observed text is the target with the base query kept /
            # the empty '#' dropped
            if row["rq"] and isinstance(got, str):
                base_t = t(row["base"])
                bq = ("?" + base_t.split("#")[0].split("?", 1)[1]) if "?" in base_t.split("#")[0] else "?\x00"
                sig["observed_keeps_base_query_or_drops_empty_query"] = canon_text(got).replace(bq, "") == canon_text(want).replace("?", "", 1).replace(bq, "") or \
                    canon_text(got) == canon_text(want).replace("?", "", 1)
            if row["rf"] and isinstance(got, str):
                sig["observed_drops_empty_fragment"] = canon_text(got) == canon_text(want)[:-1]
            verdict.fail(sig, {"base": t(row["base"]), "ref": ref, "expected_target": want, "observed": got, "call": label})
    probe = dict(rows[len(rows) // 2])
    probe["target"] = probe["target"] + [120]
    if not run_row(probe):
        raise core.MachineryError("canary: altered expected target was not rejected")
    stats.extra["canary"] = "an altered expected target is rejected"
    stats.nontrivial = {core.canon([x["base"], x["ref"]]) for x in rows if x["ref"]}
    for x in rows[:: max(1, len(rows) // 5)]:
        stats.sample({"base": t(x["base"]), "ref": t(x["ref"]), "target": t(x["target"])})
    rc = verdict.finish()
    core.write_evidence(PROP, tier, seed, stats.coverage(
        "one TLC state per (base, reference): laws on the RFC reference evaluated by TLC, expected target exported and compared with "
        "URL(base).navigate(ref).to_text() (reference as str and as URL), base immutability, chained navigation with a second reference, "
        "normalize() twice. distinct_nontrivial = rows with a non-empty reference.", True),
        ["bounded segment alphabet and base shapes", "empty path under an authority is identified with '/'"], time.time() - t0, len(verdict.violations))
    return rc


def replay(path):
    case = json.load(open(path))["case"]
    print(json.dumps(case, indent=1)[:3000])
    return 0
