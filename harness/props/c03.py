"""C03 - concurrent LRI/LRU operations are atomic (linearizable) and never corrupt the cache.

Real threads, scheduled one bytecode at a time by harness/sched.py, every schedule with at most B
pre-emptions; each recorded history is judged by TLC (specs/cache/CacheLin.tla) against the
sequential specification Cache.tla; CacheConc.tla is the design-level model of the locked ring.
"""
import itertools
import json
import multiprocessing as mp
import os
import random
import sys
import time

from harness import core, sched
from harness.core import SPECS, Stats, Verdict, tlc, tlc_must_pass

PROP = "C03"
META = {
    "technique": "bounded-pre-emption enumeration of real thread schedules at bytecode granularity (sys.settrace + cooperative lock) with every recorded history checked for linearizability by TLC against the sequential TLA+ spec (CacheLin.tla over Cache.tla); design-level PlusCal/TLA+ model of the locked ring (CacheConc.tla) model-checked with a lock-removed negative control",
    "level_text": "Every schedule with at most B pre-emptions (B=1 quick, B=2 thorough; a pre-emption may sit before any bytecode executed inside cacheutils) of two or three real threads running short programs on a shared LRI/LRU is executed deterministically; each history (invocations, responses, final contents, eviction order, usability) is accepted only if TLC finds linearization points consistent with Cache.tla. TLC also checks the lock discipline on the design model exhaustively.",
    "level_note": "Pre-emption inside C code is impossible under the GIL and not modelled; counters are not judged (soft_miss_count is incremented outside the lock and the property does not list counters). Bounds: programs of 1-2 operations per thread over 3 keys, max_size 1-2. Exhaustive for the stated pre-emption bound on the listed programs, not for all programs.",
}
SPECDIR = SPECS / "cache"
K = lambda i: "k%d" % i
V = lambda v: None if v == 0 else v


def dk(x):
    if isinstance(x, str) and x[:1] == "k" and x[1:].isdigit():
        return int(x[1:])
    return -999


def dv(x):
    if x is None:
        return 0
    return x if isinstance(x, int) and not isinstance(x, bool) else -999


OPS = [
    {"op": "setitem", "k": 1, "v": 1}, {"op": "setitem", "k": 2, "v": 2}, {"op": "setitem", "k": 3, "v": 3},
    {"op": "getitem", "k": 1}, {"op": "getitem", "k": 2}, {"op": "get", "k": 1, "d": 5}, {"op": "get", "k": 3, "d": 0},
    {"op": "delitem", "k": 1}, {"op": "delitem", "k": 2}, {"op": "pop", "k": 2, "d": 5}, {"op": "pop", "k": 1, "d": -1},
    {"op": "setdefault", "k": 2, "d": 5}, {"op": "setdefault", "k": 3, "d": 0},
    {"op": "update", "arg": [{"k": 1, "v": 1}, {"k": 3, "v": 2}]}, {"op": "update", "arg": [{"k": 2, "v": 1}]},
    {"op": "popitem"}, {"op": "clear"}, {"op": "copy"},
    # other argument forms of update (the specification sees the same pairs), a fourth key, a read of the third
    {"op": "update", "arg": [{"k": 1, "v": 1}, {"k": 3, "v": 2}], "form": "dict"}, {"op": "update", "arg": [{"k": 2, "v": 1}, {"k": 3, "v": 3}], "form": "gen"},
    {"op": "update", "arg": [{"k": 2, "v": 1}], "form": "ior"}, {"op": "setitem", "k": 4, "v": 4}, {"op": "getitem", "k": 3},
    {"op": "update", "arg": [{"k": 1, "v": 2}, {"k": 3, "v": 1}], "form": "pairs+kw"},      # one call: a positional source and keyword items
]
# membership, len() and iteration are inherited dict reads that take no lock (the property's mechanism lists only the
# locked methods); they can see the two dict writes of an evicting insert one at a time, so they are not used as
# concurrent observers - they are used in the sequential probe after the threads have finished.


class YV(int):
    """an int whose comparison is Python code: the scheduler may switch threads in the middle of a dict comparison"""
    __hash__ = int.__hash__

    def __eq__(self, other):
        s_ = sched.CoopRLock.sched
        if s_ is not None:
            s_.yield_point("VALUE_EQ")
        return int.__eq__(self, other)

    def __ne__(self, other):
        r = self.__eq__(other)
        return r if r is NotImplemented else not r


# comparisons with a plain mapping: ==/!= must see one state of the cache, not a mixture of two
CMP_OPS = [{"op": "ne", "arg": [{"k": 1, "v": 4}, {"k": 2, "v": 2}]}, {"op": "eq", "arg": [{"k": 1, "v": 4}, {"k": 2, "v": 2}]},
           {"op": "ne", "arg": [{"k": 1, "v": 4}, {"k": 2, "v": 5}]}, {"op": "eq", "arg": [{"k": 1, "v": 4}, {"k": 2, "v": 5}]},
           {"op": "ne", "arg": [{"k": 1, "v": 1}, {"k": 2, "v": 5}]}, {"op": "eq", "arg": [{"k": 2, "v": 5}]}]


def norm(op):
    o = {"op": op["op"], "k": op.get("k", 0), "v": op.get("v", 0), "d": op.get("d", 0), "arg": op.get("arg", [])}
    return o


def apply(c, op):
    n = op["op"]
    try:
        v = []
        if n == "setitem":
            c[K(op["k"])] = V(op["v"])
        elif n == "getitem":
            v = [dv(c[K(op["k"])])]
        elif n == "get":
            v = [dv(c.get(K(op["k"]), V(op["d"])))]
        elif n == "delitem":
            del c[K(op["k"])]
        elif n == "pop":
            v = [dv(c.pop(K(op["k"])) if op["d"] == -1 else c.pop(K(op["k"]), V(op["d"])))]
        elif n == "setdefault":
            v = [dv(c.setdefault(K(op["k"]), V(op["d"])))]
        elif n == "update":
            ps_ = [(K(p["k"]), V(p["v"])) for p in op["arg"]]
            form = op.get("form", "pairs")
            if form == "dict":
                c.update(dict(ps_))
            elif form == "gen":
                c.update(p_ for p_ in ps_)
            elif form == "pairs+kw":
                c.update(ps_[:1], **dict(ps_[1:]))
            elif form == "ior":
                c |= ps_
            else:
                c.update(ps_)
        elif n == "popitem":
            a, b = c.popitem()
            v = [dk(a), dv(b)]
        elif n == "clear":
            c.clear()
        elif n in ("eq", "ne"):
            other = {K(p["k"]): YV(p["v"]) for p in op["arg"]}     # fresh objects: no identity short cut
            v = [int(c == other) if n == "eq" else int(c != other)]
        elif n == "contains":
            v = [1 if K(op["k"]) in c else 0]
        elif n == "len":
            v = [len(c)]
        elif n == "copy":
            c2 = c.copy()
            v = [x for k_, v_ in sorted((dk(a), dv(b)) for a, b in dict.items(c2)) for x in (k_, v_)]
        elif n == "keys":
            v = sorted(dk(a) for a in list(c))
        else:
            raise core.MachineryError("op " + n)
        return {"e": "ok", "v": v}
    except sched.Abort:
        raise
    except core.MachineryError:
        raise
    except Exception as ex:
        return {"e": core.exc_name(ex), "v": []}


_CU = {}


def cu():
    if not _CU:
        import threading
        import types
        from boltons import cacheutils
        # whatever name the module uses for its lock class (RLock, Lock, threading.RLock, ...) must give the
        # cooperative lock, or a contended acquire would block the OS thread under the scheduler
        shim = types.SimpleNamespace(**{k: getattr(threading, k) for k in dir(threading) if not k.startswith("__")})
        shim.RLock = shim.Lock = sched.CoopRLock
        for name, val in list(vars(cacheutils).items()):
            if val is threading.RLock or val is threading.Lock:
                setattr(cacheutils, name, sched.CoopRLock)
            elif val is threading:
                setattr(cacheutils, name, shim)
        cacheutils.RLock = sched.CoopRLock
        _CU["m"] = cacheutils
        f = cacheutils.__file__
        _CU["file"] = f[:-1] if f.endswith(".pyc") else f
    return _CU["m"], _CU["file"]


def make_cache(cfg, init):
    m, _ = cu()
    cls = m.LRU if cfg["lru"] else m.LRI
    box = {}

    def on_miss(key):
        if cfg["om"] == 2:
            box["c"][K(1)] = V(7)
        return V(10 + dk(key))
    c = cls(max_size=cfg["m"], on_miss=on_miss if cfg["om"] else None)
    box["c"] = c
    for p in init:
        c[K(p["k"])] = V(p["v"])
    return c


def final_probe(c, cfg):
    """Sequential probe after all threads finished: contents, eviction order, usability."""
    out = {"k": "final", "usable": True, "len": -1, "items": [-1], "order": [-1]}
    try:
        out["len"] = len(c)
        out["items"] = [x for k_, v_ in sorted((dk(a), dv(b)) for a, b in dict.items(c)) for x in (k_, v_)]
        m = cfg["m"]
        live = list(dict.keys(c))
        order = []
        for j in range(m + 1):
            if not live:
                break
            c["fresh%d" % j] = 1
            if len(c) > m:
                out["usable"] = False
                out["why"] = "over capacity while probing"
            gone = [k for k in live if not dict.__contains__(c, k)]
            for k in gone:
                live.remove(k)
                order.append(dk(k))
        if live:
            out["usable"] = False
            out["why"] = "keys never evicted: %r" % (live,)
        out["order"] = order
        # the cache must still work as a cache
        c["z"] = 1
        c.get("z"), c.setdefault("y", 2), c.pop("y", None), list(c), c.copy(), repr(c), len(c)
        c.update([("q", 1)])
        while len(c):
            c.popitem()
        c["w"] = 1
        del c["w"]
        c.clear()
        if len(c) != 0 or list(dict.keys(c)):
            out["usable"] = False
            out["why"] = "not empty after clear"
        # ... and as a BOUNDED cache: filled past its capacity once more (the ring of an emptied cache is used again)
        for j in range(m + 2):
            c["again%d" % j] = j
        if len(c) != m or sorted(dict.keys(c)) != sorted("again%d" % j for j in range(2, m + 2)):
            out["usable"] = False
            out["why"] = "after emptying, %d fresh keys leave %r" % (m + 2, sorted(dict.keys(c)))
        c.clear()
        if c._lock.owner is not None if hasattr(c._lock, "owner") else False:
            out["usable"] = False
            out["why"] = "lock left held"
    except Exception as ex:
        out["usable"] = False
        out["why"] = "probe raised " + core.exc_name(ex) + ": " + str(ex)[:80]
    return out


def execute(cfg, init, programs, plan, first=0):
    _, cufile = cu()
    c = make_cache(cfg, init)
    events = []

    def mk(t, prog):
        def fn():
            for op in prog:
                events.append({"k": "inv", "t": t + 1, "op": norm(op)})
                r = apply(c, op)
                events.append({"k": "ret", "t": t + 1, "r": r})
        return fn
    s = sched.Scheduler(cufile, [mk(t, p) for t, p in enumerate(programs)], plan)
    outcome = s.run(first)
    errs = [core.exc_name(w.error) for w in s.workers if w.error is not None]
    if outcome != "ok" or errs:
        events.append({"k": "final", "usable": False, "len": -1, "items": [-1], "order": [-1], "why": outcome + " " + ",".join(errs)})
    else:
        events.append(final_probe(c, cfg))
    return events, s


def explore(job):
    """All schedules of one (cfg, init, programs) with at most B pre-emptions. Returns distinct histories."""
    cfg, init, programs, B = job
    n = len(programs)
    seen = {}
    runs = 0
    steps_total = 0
    # frontier entries: (plan dict, first thread, number of plan entries)
    frontier = [({}, f) for f in range(n)]
    depth = 0
    while frontier and depth <= B:
        nxt = []
        for plan, first in frontier:
            ev, s = execute(cfg, init, programs, plan, first)
            runs += 1
            steps_total += s.step
            key = core.canon(ev)
            if key not in seen:
                seen[key] = {"cfg": cfg, "init": init, "ev": ev, "plan": sorted(plan.items()), "first": first,
                             "programs": programs}
            last = max(plan) if plan else -1
            for (step, cur, runnable, forced) in s.trace_choices:
                if step <= last:
                    continue
                if forced and len(runnable) > 1:
                    # the running thread finished or blocked: every other thread may go on, at no cost in pre-emptions
                    # (with three threads this is what produces orders such as 2, 1, 0)
                    for j in runnable[1:]:
                        p2 = dict(plan)
                        p2[step] = j
                        frontier.append((p2, first))
                elif depth < B and cur >= 0:
                    for j in runnable:
                        if j != cur:
                            p2 = dict(plan)
                            p2[step] = j
                            nxt.append((p2, first))
        frontier = nxt
        depth += 1
    return list(seen.values()), runs, steps_total


def jobs(tier, seed):
    rng = random.Random(seed)
    out = []
    cfgs = [{"m": m, "lru": lru, "om": 0} for m in (1, 2, 3) for lru in (False, True)]
    inits = [[], [{"k": 1, "v": 4}], [{"k": 1, "v": 4}, {"k": 2, "v": 5}], [{"k": 2, "v": 5}, {"k": 1, "v": 4}],
             [{"k": 2, "v": 5}, {"k": 3, "v": 1}, {"k": 1, "v": 4}]]      # three items: a ring with a middle link
    pairs = list(itertools.product(range(len(OPS)), repeat=2))
    rng.shuffle(pairs)
    npairs = len(pairs) if tier == "thorough" else 70
    for a, b in pairs[:npairs]:
        for _ in range(1):
            cfg = dict(rng.choice(cfgs))
            if OPS[a]["op"] in ("getitem", "get", "setdefault") or OPS[b]["op"] in ("getitem", "get", "setdefault"):
                cfg["om"] = rng.choice([0, 0, 1, 2])
            out.append((cfg, rng.choice(inits), [[OPS[a]], [OPS[b]]], 2 if tier == "thorough" else 1))
    # observer pairs: one thread performs a multi-step mutation (an evicting insert touches the dict twice), the other
    # looks at BOTH affected keys one after the other; only a two-operation observer can see a half-done mutation
    full = [{"k": 1, "v": 4}, {"k": 2, "v": 5}]
    muts = [{"op": "setitem", "k": 3, "v": 3}, {"op": "update", "arg": [{"k": 1, "v": 2}, {"k": 3, "v": 1}], "form": "pairs+kw"}] if tier != "thorough" else \
        [{"op": "setitem", "k": 3, "v": 3}, {"op": "update", "arg": [{"k": 3, "v": 1}]}, {"op": "setdefault", "k": 3, "d": 5},
         {"op": "update", "arg": [{"k": 3, "v": 1}, {"k": 1, "v": 2}]}, {"op": "update", "arg": [{"k": 1, "v": 2}, {"k": 3, "v": 1}], "form": "pairs+kw"}]

    def obs(kind, k):
        return {"op": kind, "k": k, "d": 5} if kind != "getitem" else {"op": "getitem", "k": k}
    kinds = [("pop", "pop"), ("get", "get")] if tier != "thorough" else \
        [(a, b) for a in ("pop", "get", "getitem") for b in ("pop", "get", "getitem")]
    for lru in (False, True):
        for mu in muts:
            for ka, kb in kinds:
                for first, second in ((1, 3), (3, 1)):
                    out.append(({"m": 2, "lru": lru, "om": 0}, full, [[mu], [obs(ka, first), obs(kb, second)]], 1))
    for _ in range(150 if tier == "thorough" else 15):     # longer programs
        cfg = dict(rng.choice(cfgs))
        cfg["om"] = rng.choice([0, 0, 0, 1, 2])
        progs = [[rng.choice(OPS + CMP_OPS[:2]) for _ in range(rng.randint(1, 2))] for _ in range(2)]
        out.append((cfg, rng.choice(inits), progs, 1))
    # a comparison racing writers of both keys it looks at (values compare through Python code, so the comparison can be
    # interrupted between two keys): the answer must be that of ONE state the cache went through
    writers = [[{"op": "setitem", "k": 1, "v": 1}, {"op": "setitem", "k": 2, "v": 2}],
               [{"op": "setitem", "k": 2, "v": 2}, {"op": "setitem", "k": 1, "v": 1}],
               [{"op": "update", "arg": [{"k": 1, "v": 1}, {"k": 2, "v": 2}]}]]
    cmps = CMP_OPS if tier == "thorough" else CMP_OPS[:3]
    for lru in (False, True):
        for m in ((2, 3) if tier == "thorough" else (2,)):
            for wr in writers if tier == "thorough" else writers[:2]:
                for cmp_ in cmps:
                    out.append(({"m": m, "lru": lru, "om": 0}, full, [[cmp_], wr], 2 if tier == "thorough" else 1))
    # an operation that rebuilds the cache's internals (clear) pre-empted while it holds the lock, a second thread already
    # waiting for that lock, a third arriving later: all three must still exclude each other
    for lru in (False, True):
        for others in ([{"op": "setitem", "k": 3, "v": 3}, {"op": "setitem", "k": 4, "v": 4}],
                       [{"op": "update", "arg": [{"k": 1, "v": 2}, {"k": 3, "v": 1}]}, {"op": "setdefault", "k": 2, "d": 5}]) if tier == "thorough" else \
                ([{"op": "setitem", "k": 3, "v": 3}, {"op": "setitem", "k": 4, "v": 4}],):
            # (two pre-emptions are needed to see two of them inside at once: one in the holder, one in the released waiter;
            # about 13,000 executions per program - thorough tier only for the deep bound)
            deep = tier == "thorough" and others[0]["op"] == "setitem"
            out.append(({"m": 2, "lru": lru, "om": 0}, full, [[{"op": "clear"}], [others[0]], [others[1]]], 2 if deep else 1))
    for _ in range(12 if tier == "thorough" else 16):      # three threads (thorough: with one pre-emption, ~850 executions each)
        cfg = dict(rng.choice(cfgs))
        progs = [[rng.choice(OPS)] for _ in range(3)]
        if any(p_[0]["op"] in ("getitem", "get", "setdefault") for p_ in progs):
            cfg["om"] = rng.choice([0, 1, 2])           # lookups that load (and re-enter the cache) while two others wait
        # quick: every order in which the three can take turns at completion / blocking points, no pre-emption
        # (one three-thread program with a pre-emption costs ~850 executions)
        out.append((cfg, rng.choice(inits), progs, 1 if tier == "thorough" else 0))
    return out


def judge(histories, stats, verdict, label="schedules"):
    """TLC decides linearizability of every distinct history."""
    if not histories:
        return
    shards = min(core.NCPU, max(1, len(histories) // 200))
    parts = [histories[i::shards] for i in range(shards)]
    import tempfile
    import shutil
    tmp = tempfile.mkdtemp(prefix="c03-")

    def run(i):
        f = os.path.join(tmp, "h%d.json" % i)
        with open(f, "w") as fh:
            json.dump([{"cfg": h["cfg"], "init": h["init"], "ev": h["ev"]} for h in parts[i]], fh)
        return tlc(SPECDIR, "CacheLin.tla", "CacheLin.cfg", workers=1, env={"TRACE_FILE": f}, timeout=3000)
    try:
        results = core.parallel(run, range(shards))
    finally:
        shutil.rmtree(tmp, ignore_errors=True)
    for i, r in enumerate(results):
        if not r.ok:
            raise core.MachineryError("CacheLin TLC run failed:\n" + "\n".join(r.out.splitlines()[-30:]))
        stats.add_tlc(r)
        acc = {a[1] for a in r.raw_tuples("ACCEPT")}
        for j, h in enumerate(parts[i], 1):
            stats.trace_events += len(h["ev"])
            if j in acc:
                stats.traces_accepted += 1
                continue
            fin = h["ev"][-1]
            ops = sorted({e["op"]["op"] for e in h["ev"] if e["k"] == "inv"})
            sig = {"subject": "cacheutils.LRI/LRU threads", "what": "not-linearizable", "ops": ops,
                   "cls": "LRU" if h["cfg"]["lru"] else "LRI"}
            verdict.fail(sig, {"cfg": h["cfg"], "init": h["init"], "programs": h["programs"], "schedule_plan": h["plan"],
                               "first_thread": h["first"], "history": h["ev"], "final_probe_note": fin.get("why", "")})


def main(tier, seed):
    t0 = time.time()
    stats, verdict = Stats(), Verdict(PROP, tier, seed)
    thorough = tier == "thorough"
    design_model(stats, thorough)
    js = jobs(tier, seed)
    with mp.get_context("fork").Pool(core.NCPU) as pool:
        res = pool.map(explore, js, chunksize=1)
    hist = []
    runs = steps = 0
    for hs, r, st in res:
        hist += hs
        runs += r
        steps += st
    stats.extra.update({"programs": len(js), "schedules_executed": runs, "bytecode_steps_scheduled": steps,
                        "distinct_histories": len(hist), "preemption_bound": 2 if thorough else 1})
    canary(hist, stats)
    judge(hist, stats, verdict)
    stats.nontrivial = {core.canon(h["ev"]) for h in hist if len({e["t"] for e in h["ev"] if e["k"] == "inv"}) > 1 and
                        any(h["ev"][i]["k"] == "inv" and h["ev"][i + 1]["k"] != "ret" for i in range(len(h["ev"]) - 1))}
    stats.sample({"cfg": hist[0]["cfg"], "programs": hist[0]["programs"], "plan": hist[0]["plan"], "history": hist[0]["ev"]})
    rc = verdict.finish()
    cov = stats.coverage(
        "every schedule with at most B pre-emptions (B per evidence key preemption_bound; a pre-emption point before every "
        "bytecode executed inside cacheutils.py) of each listed program set is executed on real threads; distinct recorded histories "
        "are judged by TLC (linearization search). distinct_nontrivial = distinct histories in which operations of different threads "
        "overlapped (an invocation not immediately followed by its response).", False)
    cov["evaluations"] = runs
    core.write_evidence(PROP, tier, seed, cov,
                        ["GIL: C-level operations are atomic", "counters not judged", "bounds: programs of 1-2 ops per thread, 2-3 threads, 3 keys, max_size 1-2"],
                        time.time() - t0, len(verdict.violations))
    return rc


def design_model(stats, thorough):
    if not (SPECDIR / "CacheConc.tla").exists():
        return
    r = tlc_must_pass(SPECDIR, "CacheConc.tla", "CacheConc.cfg", workers=core.NCPU, timeout=3000)
    stats.add_tlc(r)
    neg = tlc(SPECDIR, "CacheConc.tla", "CacheConc_nolock.cfg", workers=core.NCPU, timeout=3000)
    if not neg.invariant_violated:
        raise core.MachineryError("negative control: CacheConc without the lock did not violate any invariant")
    stats.extra["negative_control"] = "CacheConc with UseLock=FALSE violates %s (as it must)" % neg.invariant_violated


def canary(hist, stats):
    """A falsified response and a falsified final order must both be rejected."""
    base = None
    for h in hist:
        rets = [e for e in h["ev"] if e["k"] == "ret" and e["r"]["e"] == "ok" and e["r"]["v"]]
        if rets and h["ev"][-1].get("usable") and len(h["ev"][-1]["order"]) >= 1:
            base = h
            break
    if base is None:
        return
    bad1 = json.loads(json.dumps(base))
    for e in bad1["ev"]:
        if e["k"] == "ret" and e["r"]["e"] == "ok" and e["r"]["v"]:
            e["r"]["v"][0] += 1
            break
    bad2 = json.loads(json.dumps(base))
    bad2["ev"][-1]["order"] = list(reversed(bad2["ev"][-1]["order"])) + [3]
    v = Verdict(PROP, "canary", 0)
    v.findings.entries = []
    s = Stats()
    judge([base, bad1, bad2], s, v)
    if s.traces_accepted == 0:
        return      # the unmodified history is itself rejected: reported by the main run
    if s.traces_accepted != 1 or len(v.violations) != 2:
        raise core.MachineryError("linearizability canary: falsified histories were not rejected (%d accepted)" % s.traces_accepted)
    stats.extra["canary"] = "a falsified response and a falsified final eviction order were both rejected by TLC"


def replay(path):
    case = json.load(open(path))["case"]
    print(json.dumps(case, indent=1)[:5000])
    ev, s = execute(case["cfg"], case["init"], case["programs"], {int(a): b for a, b in case["schedule_plan"]}, case["first_thread"])
    print("RE-EXECUTED:", json.dumps(ev))
    return 0
