"""C09 - chunking, windowing, splitting and grouping helpers conserve elements and order.

Spec: specs/seqfns/SeqFns.tla (reference definitions + laws), SeqFnsMC (one state per (function, arguments) row).
"""
import json
import multiprocessing as mp
import time

from harness import core
from harness.core import SPECS, Stats, Verdict, tlc_must_pass

PROP = "C09"
META = {
    "technique": "TLA+ reference definitions of chunked/windowed/split/strip/unique/redundant/bucketize/partition/chunk_ranges with the property's laws checked by TLC on every row of the bounded domain; every row (input, parameters, reference output) replayed on the list and *_iter forms with list / tuple / one-shot iterator / str / bytes inputs; the split/strip reference is itself checked against str.split/str.strip",
    "level_text": "TLC evaluates the conservation / size / order / coverage laws on the reference definitions for every sequence up to length 5-6 over three symbols and all parameter combinations, and exports each row; the harness runs the real functions on every row in every applicable input form and compares with the reference output exactly. Exhaustive within the bounds.",
    "level_note": "Bounds in specs/seqfns/*.cfg. str.split / str.strip semantics are taken from the interpreter: the TLA+ reference is compared with the interpreter on the same rows (a disagreement there is a machinery fault). Pure functions: the binding is spec -> code only.",
}
SPECDIR = SPECS / "seqfns"
CH = {0: " ", 1: "a", 2: "b", 7: "z"}
RCH = {v: k for k, v in CH.items()}


def keyfn(kf):
    return None if kf == 0 else (lambda x: x % 2) if kf == 1 else (lambda x: 0)


def norm(x, chunks=False):
    """nested tuples/lists -> nested lists of ints. chunks=True: the top-level items are str/bytes chunks
    (chunked on text); otherwise a 1-character string is an element."""
    if chunks and isinstance(x, (list, tuple)):
        return [norm_chunk(e) for e in x]
    if isinstance(x, str):
        return RCH.get(x, -999) if len(x) == 1 else "str:" + x
    if isinstance(x, bytes):
        return "bytes:%r" % x
    if isinstance(x, (list, tuple)):
        return [norm(e) for e in x]
    if x is None:
        return 0
    if isinstance(x, (int, bool)):
        return int(x)
    return "object:" + type(x).__name__


def norm_falsy(x):
    """decoding for the 'falsy' spelling of a sequence: None stands for 0, and the falsy-but-not-None values 0 / '' / False
    stand for 2 (they must be kept as ordinary elements wherever only None is special)"""
    if isinstance(x, tuple) and not x:
        return 2
    if isinstance(x, (list, tuple)):
        return [norm_falsy(e) for e in x]
    if x is None:
        return 0
    if x == 1 and x is not True:
        return 1
    if x in (0, "", False) or x == ():
        return 2
    return "object:" + repr(x)


FALSY = [0, "", False, ()]


def norm_chunk(c):
    if isinstance(c, str):
        return [RCH.get(ch, -999) for ch in c]
    if isinstance(c, bytes):
        return [RCH.get(chr(b), -999) for b in c]
    return norm(c)


def norm_text(x):
    """a whole str/bytes value standing for a sequence"""
    return norm_chunk(x) if isinstance(x, (str, bytes)) else norm(x)


def forms(s, allow_str=True, none_for_zero=False):
    base = [None if (none_for_zero and e == 0) else e for e in s]
    import collections

    class Sized:                  # a sized, re-iterable container that is no list (and says so itself when it is empty)
        def __init__(self, items):
            self._items = list(items)

        def __iter__(self):
            return iter(self._items)

        def __len__(self):
            return len(self._items)
    out = [("list", lambda: list(base)), ("tuple", lambda: tuple(base)), ("iter", lambda: iter(list(base))),
           ("gen", lambda: (e for e in base)), ("deque", lambda: collections.deque(base)), ("sized", lambda: Sized(base))]
    if allow_str and not none_for_zero:
        txt = "".join(CH[e] for e in s)
        out.append(("str", lambda: txt))
        out.append(("bytes", lambda: txt.encode()))
    return out


def run_row(row):
    """Returns list of (variant, observed) that differ from row['out'] (or raised)."""
    from boltons import iterutils as it
    f, s, out = row["f"], row["s"], row["out"]
    bad = []

    def scribble(x, depth=0):
        if isinstance(x, list):
            for e in x:
                if depth < 2:
                    scribble(e, depth + 1)
            x.append("scribbled")
            x.reverse()

    def chk(variant, thunk, expect=None, post=norm):
        exp = out if expect is None else expect
        try:
            res = thunk()
            got = post(res)
            if ("/str" in variant or "/tuple" in variant or "/bytes" in variant) and isinstance(res, list):
                # hashable input: the result must be the caller's own - change it, ask again, expect the same answer
                scribble(res)
                again = post(thunk())
                if again != got:
                    got = {"second-call-after-the-caller-changed-the-first-result": again}
        except Exception as ex:
            got = "raised:" + core.exc_name(ex)
        if got != exp:
            bad.append((variant, got, exp))
    if f in ("chunked", "windowed"):
        n, fill = row["n"], row["fill"]
        for name, mk in forms(s):
            if f == "chunked":
                kw = {} if fill == -1 else {"fill": (CH[fill] if name == "str" else ord(CH[fill]) if name == "bytes" else fill)}
                def post(x, name=name):
                    r = norm(x)
                    return r
                exp = out
                if name == "bytes" and fill != -1:
                    exp = out
                pc = (lambda x: norm(x, chunks=True)) if name in ("str", "bytes") else norm
                chk("chunked/" + name, lambda: it.chunked(mk(), n, **kw), exp, pc)
                chk("chunked_iter/" + name, lambda: list(it.chunked_iter(mk(), n, **kw)), exp, pc)
                if name == "list":
                    chk("chunked(count)/" + name, lambda: it.chunked(mk(), n, 2, **kw), out[:2])
                if name == "bytes":
                    # other byte containers are sequences of ints like any list: chunks are lists of ints
                    raw = mk()
                    kwb = {} if fill == -1 else {"fill": ord(CH[fill])}
                    pb = lambda r: [[RCH.get(chr(b_), -999) for b_ in c_] for c_ in r]
                    chk("chunked/bytearray", lambda: it.chunked(bytearray(raw), n, **kwb), out, pb)
                    chk("chunked_iter/memoryview", lambda: list(it.chunked_iter(memoryview(raw), n, **kwb)), out, pb)
            else:
                if name in ("bytes",):
                    continue
                kw = {} if fill == -1 else {"fill": (CH[fill] if name == "str" else fill)}
                chk("windowed/" + name, lambda: it.windowed(mk(), n, **kw))
                chk("windowed_iter/" + name, lambda: list(it.windowed_iter(mk(), n, **kw)))
                if n == 2:
                    kw2 = {} if fill == -1 else {"end": kw["fill"]}
                    chk("pairwise/" + name, lambda: it.pairwise(mk(), **kw2))
                    chk("pairwise_iter/" + name, lambda: list(it.pairwise_iter(mk(), **kw2)))
    elif f == "split":
        sep, ms = row["sep"], row["ms"]
        msa = None if ms == -1 else ms
        for name, mk in forms(s, allow_str=(sep != 0), none_for_zero=(sep == 0)):
            if name == "bytes":
                continue
            zero = " " if name == "str" else 0
            one = "a" if name == "str" else 1
            # every call gets its own separator object (some forms can be walked only once)
            seps = {0: [("None", lambda: None)], 1: [("value", lambda: zero)],
                    2: [("set", lambda: {zero, one}), ("list", lambda: [zero, one]), ("frozenset", lambda: frozenset([zero, one])),
                        ("tuple", lambda: (zero, one)), ("generator", lambda: (x_ for x_ in [zero, one])),
                        ("iterator", lambda: iter([one, zero])), ("map", lambda: map(lambda x_: x_, (zero, one))),
                        ("dict-keys", lambda: {one: 0, zero: 0}.keys())],
                    3: [("callable", lambda: (lambda x, z=zero: x == z))]}[sep]
            for sname, mksep in seps:
                chk("split/%s/sep=%s" % (name, sname), lambda: it.split(mk(), mksep(), msa))
                chk("split_iter/%s/sep=%s" % (name, sname), lambda: list(it.split_iter(mk(), mksep(), msa)))
                chk("split_iter(keywords)/%s/sep=%s" % (name, sname), lambda: list(it.split_iter(mk(), sep=mksep(), maxsplit=msa)))
                if ms == -1:
                    chk("split(no maxsplit)/%s/sep=%s" % (name, sname), lambda: it.split(mk(), mksep()))
        if sep == 0 and ms == -1:
            base0 = [None if e == 0 else e for e in s]
            chk("split(defaults)/list", lambda: it.split(list(base0)))                   # sep omitted: None separates, runs group
            chk("split_iter(defaults)/gen", lambda: list(it.split_iter(e for e in base0)))
        if sep in (1, 3):
            # a collection holding None / a predicate for None are ordinary separators: every None separates, no grouping
            basen = [None if e == 0 else e for e in s]
            chk("split/list/sep=[None]", lambda: it.split(list(basen), [None], msa))
            chk("split_iter/gen/sep=is-None", lambda: list(it.split_iter((e for e in basen), lambda x: x is None, msa)))
            # a predicate answering with something truthy / falsy that is no bool
            chk("split/list/sep=non-bool-predicate", lambda: it.split([e for e in s], lambda x: "" if x else "sep", msa))
            # a separator string longer than one character is ONE value among list elements, not a set of characters
            words = {0: "ab", 1: "a", 2: "b", 3: "ba"}
            chk("split/list-of-words/sep='ab'", lambda: it.split([words.get(e, "w%d" % e) for e in s], "ab", msa),
                post=lambda r: [[{v: k for k, v in words.items()}.get(x, -999) for x in g] for g in r])
            if msa is not None:
                chk("split/list/maxsplit-int-like", lambda: it.split([e for e in s], 0, True if msa == 1 else [float(msa), str(msa)][msa % 2]))
        if sep == 0:
            # only None separates: other falsy elements (0, '', False, ()) standing where the model has 2 are kept
            for fi, fv in enumerate(FALSY):
                base2 = [None if e == 0 else (fv if e == 2 else e) for e in s]
                chk("split/list-with-falsy-%d/sep=None" % fi, lambda: it.split(list(base2), None, msa), post=norm_falsy)
                chk("split_iter/gen-with-falsy-%d/sep=None" % fi, lambda: list(it.split_iter((e for e in base2), None, msa)), post=norm_falsy)
    elif f in ("lstrip", "rstrip", "strip"):
        for name, mk in forms(s):
            if name == "bytes":
                continue
            zero = " " if name == "str" else 0
            chk(f + "/" + name, lambda: getattr(it, f)(mk(), zero))
            chk(f + "_iter/" + name, lambda: list(getattr(it, f + "_iter")(mk(), zero)))
        base = [None if e == 0 else e for e in s]
        chk(f + "/default-None", lambda: getattr(it, f)(list(base)))
        for fi, fv in enumerate(FALSY):
            base2 = [None if e == 0 else (fv if e == 2 else e) for e in s]
            chk(f + "/default-None/falsy-%d" % fi, lambda: getattr(it, f)(list(base2)), post=norm_falsy)
            chk(f + "_iter/default-None/falsy-%d" % fi, lambda: list(getattr(it, f + "_iter")(iter(base2))), post=norm_falsy)
    elif f in ("unique", "redundant", "redundant_groups"):
        kf = row["kf"]
        for name, mk in forms(s, allow_str=(kf == 0)):
            if name == "bytes":
                continue
            if kf == 0 and name == "list":
                chk(f + "(key omitted)/list", lambda: (it.unique(mk()) if f == "unique" else it.redundant(mk()) if f == "redundant" else it.redundant(mk(), groups=True)))
                # an attribute name as key: complex numbers told apart by .real (the imaginary part differs per position)
                cplx = lambda: [complex(e, i_) for i_, e in enumerate(s)]
                unreal = lambda r: [[int(z.real) for z in g] if isinstance(g, list) else int(g.real) for g in r]
                if f == "unique":
                    chk("unique(key='real')/list", lambda: it.unique(cplx(), "real"), post=unreal)
                elif f == "redundant":
                    chk("redundant(key='real')/list", lambda: it.redundant(cplx(), "real"), post=unreal)
                else:
                    chk("redundant(key='real', groups)/list", lambda: it.redundant(cplx(), "real", groups=True), post=unreal)
            if f == "unique":
                chk("unique/" + name, lambda: it.unique(mk(), keyfn(kf)))
                chk("unique_iter/" + name, lambda: list(it.unique_iter(mk(), keyfn(kf))))
            elif f == "redundant":
                chk("redundant/" + name, lambda: it.redundant(mk(), keyfn(kf)))
            else:
                chk("redundant(groups)/" + name, lambda: it.redundant(mk(), keyfn(kf), groups=True))
    elif f == "bucketize":
        kf = row["kf"]
        k = keyfn(kf) or (lambda x: x)
        for name, mk in forms(s, allow_str=False):
            chk("bucketize/" + name, lambda: [[a, b] for a, b in it.bucketize(mk(), k).items()])
    elif f == "partition":
        kf = row["kf"]
        for name, mk in forms(s, allow_str=False):
            if kf == 0:
                chk("partition/" + name, lambda: list(it.partition(mk())))
                chk("partition(bool)/" + name, lambda: list(it.partition(mk(), bool)))
            else:
                chk("partition(parity)/" + name, lambda: list(it.partition(mk(), lambda x: x % 2 == 1)))
    elif f == "chunk_ranges":
        size, chunk, offset, overlap = s
        chk("chunk_ranges", lambda: [list(r) for r in it.chunk_ranges(size, chunk, offset, overlap, row["n"] == 1)])
        if offset == 0 and overlap == 0 and row["n"] != 1:
            chk("chunk_ranges(defaults)", lambda: [list(r) for r in it.chunk_ranges(size, chunk)])
        if row["n"] == 1:
            chk("chunk_ranges(truthy align)", lambda: [list(r) for r in it.chunk_ranges(size, chunk, offset, overlap, "yes")])
        chk("chunk_ranges(int-like)", lambda: [list(r) for r in it.chunk_ranges(float(size), str(chunk), input_offset=offset, overlap_size=overlap, align=row["n"] == 1)])
        chk("chunk_ranges(kw)", lambda: [list(r) for r in it.chunk_ranges(input_size=size, chunk_size=chunk, input_offset=offset,
                                                                         overlap_size=overlap, align=row["n"] == 1)])
    return bad


def selfcheck_str(rows):
    """The TLA+ split/strip reference against the interpreter's str methods (environment binding)."""
    n = 0
    for row in rows:
        f, s = row["f"], row["s"]
        txt = "".join(CH[e] for e in s) if f in ("split", "lstrip", "rstrip", "strip") else None
        if f == "split" and row["sep"] in (0, 1):
            ms = row["ms"]
            ref = txt.split(None if row["sep"] == 0 else " ", ms)
            if [norm_text(g) for g in ref] != row["out"]:
                raise core.MachineryError("TLA+ Split disagrees with str.split on %r: %r vs %r" % (row, ref, row["out"]))
            n += 1
        elif f in ("lstrip", "rstrip", "strip"):
            if norm_text(getattr(txt, f)(" ")) != row["out"]:
                raise core.MachineryError("TLA+ %s disagrees with str.%s on %r" % (f, f, row))
            n += 1
    return n


def _work(rows):
    res = []
    for row in rows:
        b = core.with_timeout(lambda: run_row(row), 20)
        for variant, got, exp in b:
            res.append((row, variant, got, exp))
    return res, len(rows)


def main(tier, seed):
    t0 = time.time()
    stats, verdict = Stats(), Verdict(PROP, tier, seed)
    thorough = tier == "thorough"
    r = tlc_must_pass(SPECDIR, "SeqFnsMC.tla", "SeqFnsMC_thorough.cfg" if thorough else "SeqFnsMC.cfg", workers=1, timeout=3000, heap="12g")
    stats.add_tlc(r)
    rows = r.payloads("T")
    stats.extra["rows"] = len(rows)
    stats.extra["str_reference_rows_checked_against_interpreter"] = selfcheck_str(rows)
    parts = [rows[i::core.NCPU * 4] for i in range(core.NCPU * 4)]
    with mp.get_context("fork").Pool(core.NCPU) as pool:
        res = pool.map(_work, parts)
    for fails, n in res:
        stats.edges_executed += n
        for row, variant, got, exp in fails:
            sig = {"subject": "iterutils." + row["f"], "op": row["f"], "variant": variant.split("/")[0],
                   "what": "raised" if isinstance(got, str) else "output"}
            if row["f"] == "split":
                sig["sep_kind"] = row["sep"]
                sig["maxsplit"] = "none" if row["ms"] == -1 else "zero" if row["ms"] == 0 else "positive"
            verdict.fail(sig, {"row": row, "call": variant, "observed": got, "expected": exp})
    # canary: an altered reference output must be noticed
    probe = dict(next(x for x in rows if x["f"] == "chunked" and len(x["s"]) == 3 and x["n"] == 2 and x["fill"] == -1))
    probe["out"] = [probe["s"]]
    if not run_row(probe) and not verdict.violations:
        raise core.MachineryError("canary: altered reference output was not rejected")
    stats.extra["canary"] = "an altered reference row is rejected by the replay"
    stats.nontrivial = {core.canon([x["f"], x["s"], x["n"], x["fill"], x["sep"], x["ms"], x["kf"]]) for x in rows if x["s"]}
    for x in rows[:: max(1, len(rows) // 5)]:
        stats.sample(x)
    rc = verdict.finish()
    cov = stats.coverage("one TLC state per (function, input sequence, parameters) row; laws evaluated by TLC on each; each row replayed on "
                         "the real list and *_iter functions with list/tuple/iterator/generator/str/bytes inputs and all separator forms. "
                         "distinct_nontrivial = rows with a non-empty input.", True)
    core.write_evidence(PROP, tier, seed, cov, ["bounds: specs/seqfns/*.cfg", "str.split/str.strip taken from the interpreter (reference cross-checked)"],
                        time.time() - t0, len(verdict.violations))
    return rc


def replay(path):
    case = json.load(open(path))["case"]
    print(json.dumps(case, indent=1)[:3000])
    print("re-run:", run_row(case["row"]))
    return 0
