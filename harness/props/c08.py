"""C08 - remap rebuilds nested data exactly as a recursive map would.

Specs: specs/remap/Remap.tla (heap, visit programs, Rebuild), RemapMC (every small heap x program), RemapTrace
(records of real runs on larger random heaps).
"""
import json
import multiprocessing as mp
import random
import time

from harness import core
from harness.core import SPECS, Stats, Verdict, tlc_must_pass

PROP = "C08"
META = {
    "technique": "TLA+ model of heaps of dict/list/tuple/set/frozenset nodes with sharing and cycles and of remap as a node-wise bottom-up rebuild under eight visit programs; every well-formed heap of the bounded model is materialised as real Python objects, remapped, and the result graph compared with the specification's node table by an identity-respecting isomorphism; larger random heaps are remapped with enter/exit wrapped and the recorded node tables validated by TLC; research()/get_path checked on the same heaps",
    "level_text": "TLC enumerates every heap with up to 2 (thorough 3) container nodes of the five kinds, up to 2 items each, with shared and self/cyclic references (cycles through list/dict), under 8 visit programs (keep, drop leaf, drop key, rewrite leaves, rename keys, drop a container kind, return True, depth-dependent), checks the copy/type laws on Rebuild and exports the expected result; the harness builds the real objects, runs remap and matches result and expectation node by node (types, keys, order, which objects are one and the same), checks the input is unchanged and, for default callbacks, that no mutable container is shared with the input. Random heaps of up to 6 nodes are judged by TLC from recorded node tables, including once-per-node enter/exit.",
    "level_note": "Set / frozenset members are scalars; cycles entered through a tuple are outside what the property promises (only termination) and are not generated. research() paths that lead through a set cannot be get_path-ed (sets are not indexable): judged as a narrowly matched known finding.",
}
SPECDIR = SPECS / "remap"
PY = {"dict": dict, "list": list, "tuple": tuple, "set": set, "frozenset": frozenset}


# the specification's dict keys are integers; key 8 stands for None on the Python side (a key that is also the
# marker remap uses for "the root has no key")
def DKEY(k):
    return None if k == 8 else k


def IKEY(x):
    return 8 if x is None else x


# scalar leaves: the specification's small integers stand for leaves of several classes when LEAFMODE is on - str and
# bytes (sequences that remap must NOT descend into), None, float, bool-free ints
# LEAFMODE 2 ("equal twins"): every leaf is a float whose rewritten form (programs 3 and 9) is the int that compares
# equal to it - a rebuilt container that == the old one is still a different result (1.0 is not 1)
LEAFMODE = 0
_LEAF2 = {1: 11.0, 2: 12.0, 3: 13.0, 4: 14.0, 11: 11, 12: 12, 13: 13, 14: 14}
_ILEAF2 = {("float", 11.0): 1, ("float", 12.0): 2, ("float", 13.0): 3, ("float", 14.0): 4, ("int", 11): 11, ("int", 12): 12,
           ("int", 13): 13, ("int", 14): 14}
_LEAF = {1: "s1", 2: b"b2", 3: None, 4: 2.5, 11: "s11", 12: b"b12", 13: 13, 14: 14.5}
_ILEAF = {("str", "s1"): 1, ("bytes", b"b2"): 2, ("NoneType", None): 3, ("float", 2.5): 4, ("str", "s11"): 11, ("bytes", b"b12"): 12,
          ("int", 13): 13, ("float", 14.5): 14}


def LEAF(v):
    return (_LEAF2 if LEAFMODE == 2 else _LEAF).get(v, v) if LEAFMODE else v


def ILEAF(x):
    if not LEAFMODE or isinstance(x, (dict, list, tuple, set, frozenset)):
        return x
    if LEAFMODE == 2:
        return _ILEAF2.get((type(x).__name__, x), x if isinstance(x, int) and not isinstance(x, bool) else -999)
    return _ILEAF.get((type(x).__name__, x), x if isinstance(x, int) and not isinstance(x, bool) else -999)


def build(heap):
    """Materialise a node table as real objects (tuples/frozensets are created once their items exist;
    cycles only pass through list/dict, which exist before their items). Returns {node: object}."""
    n = len(heap)
    objs = {}
    for i, nd in enumerate(heap, 1):
        if nd["kind"] in ("dict", "list", "set"):
            objs[i] = PY[nd["kind"]]()
    pending = [i for i in range(1, n + 1) if i not in objs]
    for _ in range(n + 1):
        for i in list(pending):
            nd = heap[i - 1]
            if all(it["s"] or it["v"] in objs for it in nd["items"]):
                objs[i] = PY[nd["kind"]](LEAF(it["v"]) if it["s"] else objs[it["v"]] for it in nd["items"])
                pending.remove(i)
    if pending:
        raise core.MachineryError("cannot materialise heap %r" % (heap,))
    for i, nd in enumerate(heap, 1):
        o = objs[i]
        for it in nd["items"]:
            v = LEAF(it["v"]) if it["s"] else objs[it["v"]]
            if nd["kind"] == "dict":
                o[DKEY(it["k"])] = v
            elif nd["kind"] == "list":
                o.append(v)
            elif nd["kind"] == "set":
                o.add(v)
    return objs


def snapshot(objs, heap):
    """identity-free description of the input, to detect mutation"""
    ids = {id(o): i for i, o in objs.items()}

    def ref(v):
        return ["n", ids[id(v)]] if id(v) in ids and isinstance(v, (dict, list, tuple, set, frozenset)) else ["s", ILEAF(v)]
    out = {}
    for i, o in objs.items():
        if isinstance(o, dict):
            out[i] = ["dict", [[k, ref(v)] for k, v in o.items()]]
        elif isinstance(o, (list, tuple)):
            out[i] = [type(o).__name__, [ref(v) for v in o]]
        else:
            out[i] = [type(o).__name__, sorted(ILEAF(x) for x in o)]
    return out


def visit_fn(prog, heap, objs):
    kinds = {id(o): heap[i - 1]["kind"] for i, o in objs.items()}
    if prog == 0:
        return None
    if prog == 1:
        return lambda p, k, v: ILEAF(v) != 1
    if prog == 2:
        def f(p, k, v, _state={}):
            return True
        return "drop-key"
    if prog == 3:
        return lambda p, k, v: (k, LEAF(ILEAF(v) + 10)) if not isinstance(v, (dict, list, tuple, set, frozenset)) else (k, v)
    if prog == 4:
        return "rename"
    if prog == 5:
        return lambda p, k, v: not isinstance(v, list)
    if prog == 6:
        return lambda p, k, v: True
    if prog == 7:
        return lambda p, k, v: len(p) != 1
    if prog == 8:
        # the value handed to visit for a container is the REBUILT container: drop it when nothing is left in it
        return lambda p, k, v: (len(v) > 0) if isinstance(v, (dict, list, tuple, set, frozenset)) else ILEAF(v) != 1
    if prog == 9:
        return lambda p, k, v: True if isinstance(v, (dict, list, tuple, set, frozenset)) else \
            (False if ILEAF(v) == 1 else (k, LEAF(12)) if ILEAF(v) == 2 else True)
    raise core.MachineryError("prog")


def run_remap(prog, heap, objs, wrap=False):
    """Returns (result object, enters per node, exits per node, new-object -> node map)."""
    from boltons import iterutils as it
    root = objs[1]
    node_of = {id(o): i for i, o in objs.items()}
    parent_kind_stack = []
    enters = {i: 0 for i in objs}
    exits = {i: 0 for i in objs}
    newnode = {}
    kw = {}
    if prog in (2, 4):
        # these programs need the kind of the parent, which visit() does not receive: track it through enter/exit
        cur = []

        def enter(path, key, value):
            res = it.default_enter(path, key, value)
            if res[1] is not False:
                cur.append(type(value))
                enters[node_of[id(value)]] += 1
                newnode[id(res[0])] = node_of[id(value)]
            return res

        def exit_(path, key, old_parent, new_parent, new_items):
            cur.pop()
            exits[node_of[id(old_parent)]] += 1
            r = it.default_exit(path, key, old_parent, new_parent, new_items)
            newnode[id(r)] = node_of[id(old_parent)]
            return r

        def visit(path, key, value):
            pk = cur[-1]
            if prog == 2:
                return not ((pk is dict and key == 7) or (pk in (list, tuple) and key == 0))
            return (IKEY(key) + 100, value) if pk is dict else (key, value)
        kw = {"visit": visit, "enter": enter, "exit": exit_}
        wrap = True
    else:
        v = visit_fn(prog, heap, objs)
        if v is not None:
            kw["visit"] = v
        if wrap:
            def enter(path, key, value):
                res = it.default_enter(path, key, value)
                if res[1] is not False:
                    enters[node_of[id(value)]] += 1
                    newnode[id(res[0])] = node_of[id(value)]
                return res

            def exit_(path, key, old_parent, new_parent, new_items):
                exits[node_of[id(old_parent)]] += 1
                r = it.default_exit(path, key, old_parent, new_parent, new_items)
                newnode[id(r)] = node_of[id(old_parent)]
                return r
            kw["enter"], kw["exit"] = enter, exit_
    if list(kw) == ["visit"] and len(heap) % 2:
        res = it.remap(root, kw["visit"])           # the callback handed over positionally
    elif prog in (0, 1, 3) and len(heap) % 3 == 0:
        # (a visit that raises is told apart from one that answers: with reraise_visit=False the item is kept as it is)
        inner = kw.get("visit", it.default_visit)

        def touchy(p, k, v):
            if not isinstance(v, (dict, list, tuple, set, frozenset)) and ILEAF(v) == 999:
                raise ValueError("never happens: no such leaf")
            return inner(p, k, v)
        res = it.remap(root, **dict(kw, visit=touchy, reraise_visit=False))
    else:
        res = it.remap(root, **kw)
    return res, enters, exits, newnode, wrap


def match(res, expected, live):
    """Identity-respecting isomorphism between the real result and the expected node table."""
    o2n, n2o = {}, {}

    def walk(o, n):
        if id(o) in o2n or n in n2o:
            if o2n.get(id(o)) != n or n2o.get(n) is not o:
                return "sharing differs at node %d" % n
            return None
        o2n[id(o)] = n
        n2o[n] = o
        nd = expected[n - 1]
        if type(o) is not PY[nd["kind"]]:
            return "node %d: type %s, expected %s" % (n, type(o).__name__, nd["kind"])
        items = nd["items"]
        if nd["kind"] == "dict":
            pairs = list(o.items())
            if [IKEY(k) for k, _ in pairs] != [i_["k"] for i_ in items]:
                return "node %d: keys %r, expected %r" % (n, [k for k, _ in pairs], [DKEY(i_["k"]) for i_ in items])
            vals = [v for _, v in pairs]
        elif nd["kind"] in ("list", "tuple"):
            vals = list(o)
            if len(vals) != len(items):
                return "node %d: %d items, expected %d" % (n, len(vals), len(items))
        else:
            if sorted(ILEAF(x) for x in o) != sorted(i_["v"] for i_ in items):
                return "node %d: members %r, expected %r" % (n, sorted(ILEAF(x) for x in o), sorted(i_["v"] for i_ in items))
            return None
        for v, i_ in zip(vals, items):
            if i_["s"] and i_["v"] in (-1, -2):        # the interpreter's shared empty tuple / frozenset
                if v != (() if i_["v"] == -1 else frozenset()) or type(v) is not (tuple if i_["v"] == -1 else frozenset):
                    return "node %d: item %r, expected an empty %s" % (n, v, "tuple" if i_["v"] == -1 else "frozenset")
            elif i_["s"]:
                if isinstance(v, (dict, list, tuple, set, frozenset)) or ILEAF(v) != i_["v"]:
                    return "node %d: item %r, expected scalar %r" % (n, v, i_["v"])
            else:
                if not isinstance(v, (dict, list, tuple, set, frozenset)):
                    return "node %d: scalar %r where node %d expected" % (n, v, i_["v"])
                w = walk(v, i_["v"])
                if w:
                    return w
        return None
    w = walk(res, 1)
    if w:
        return w
    if sorted(n2o) != sorted(live):
        return "attached nodes %r, expected %r" % (sorted(n2o), sorted(live))
    return None


def run_row(row):
    from boltons import iterutils as it
    bad = []
    heap, prog = row["heap"], row["prog"]
    global LEAFMODE
    LEAFMODE = (len(json.dumps(heap)) + prog) % 3             # a third of the rows with leaves of mixed classes, a third with equal twins
    objs = build(heap)
    before = snapshot(objs, heap)
    try:
        res, enters, exits, newnode, wrapped = core.with_timeout(lambda: run_remap(prog, heap, objs), 10)
    except core.Hang:
        return [("remap", "does-not-terminate", "")]
    except Exception as ex:
        return [("remap", "raised:" + core.exc_name(ex), str(ex)[:200])]
    w = match(res, row["result"], row["live"])
    if w:
        bad.append(("remap", "result-differs", w))
    if snapshot(objs, heap) != before:
        bad.append(("remap", "input-mutated", ""))
    if prog in (0, 6):
        inp = {id(o) for o in objs.values() if isinstance(o, (dict, list, set))}

        def mutable_ids(o, seen):
            if id(o) in seen or not isinstance(o, (dict, list, tuple, set, frozenset)):
                return
            seen.add(id(o))
            for v in (o.values() if isinstance(o, dict) else o):
                mutable_ids(v, seen)
        seen = set()
        mutable_ids(res, seen)
        if any(i in inp for i in seen):
            bad.append(("remap", "result-shares-mutable-container-with-input", ""))
    bad += research_check(objs)
    return bad


def research_check(objs):
    """research: every reported (path, value) of a nested item must be retrievable with get_path"""
    from boltons import iterutils as it
    bad = []
    try:
        found = it.research(objs[1], query=lambda p, k, v: True)
        for path, value in found:
            if path == (None,) and value is objs[1]:
                continue          # the root itself is not a nested item
            through_set = False
            cur = objs[1]
            for seg in path[:-1]:
                if isinstance(cur, (set, frozenset)):
                    through_set = True
                    break
                cur = cur[seg]
            if isinstance(cur, (set, frozenset)):
                through_set = True
            try:
                got = it.get_path(objs[1], path)
                ok = got is value or got == value
            except Exception as ex:
                ok = False
                got = core.exc_name(ex)
            if not ok:
                bad.append(("research", "path-not-retrievable" + ("-through-set" if through_set else ""), {"path": list(path), "got": str(got)}))
                break
    except Exception as ex:
        bad.append(("research", "raised:" + core.exc_name(ex), ""))
    return bad


def _work(rows):
    out = []
    try:
        for row in rows:
            for label, what, detail in run_row(row):
                out.append((row, label, what, detail))
    except core.MachineryError as ex:
        return ("machinery", str(ex))
    return ("ok", out, len(rows))


def is_tree(heap):
    seen = {}
    for nd in heap:
        for it_ in nd["items"]:
            if not it_["s"]:
                seen[it_["v"]] = seen.get(it_["v"], 0) + 1
    return all(c == 1 for c in seen.values()) and 1 not in seen


def random_heap(rng, n, tree=False):
    """Random well-formed heap: a spanning tree from node 1 plus extra shared / back references."""
    kinds = [rng.choice(["dict", "list", "tuple", "set", "frozenset", "list", "dict"]) for _ in range(n)]
    kinds[0] = rng.choice(["dict", "list", "tuple"])
    parents = {}
    for i in range(2, n + 1):
        cands = [p for p in range(1, i) if kinds[p - 1] in ("dict", "list", "tuple")]
        if not cands:
            kinds[0] = "list"
            cands = [1]
        parents[i] = rng.choice(cands)
    items = {i: [] for i in range(1, n + 1)}
    for i, p in parents.items():
        items[p].append((False, i))
    empty_seen = {"tuple": False, "frozenset": False}
    for i in range(1, n + 1):
        k = kinds[i - 1]
        if k in ("set", "frozenset"):
            # the item order of a set carries no meaning: listed ascending, as the recorder reads results back
            # the interpreter has ONE empty frozenset (and one empty tuple): at most one node of a heap may be it
            lo = 0 if k == "set" or (k == "frozenset" and not empty_seen["frozenset"] and i > 1) else 1
            items[i] = [(True, v) for v in sorted(rng.sample([1, 2, 3, 4], rng.randint(lo, 3)))]
            if k == "frozenset" and not items[i]:
                empty_seen["frozenset"] = True
            continue
        for _ in range(rng.randint(0, 2)):
            items[i].append((True, rng.randint(1, 3)))
        if not tree and rng.random() < 0.5:
            tgt = rng.randint(1, n)          # shared or cyclic reference
            items[i].append((False, tgt))
        if k == "tuple" and not items[i]:
            if empty_seen["tuple"] or i == 1 or rng.random() < 0.3:
                items[i].append((True, 2))
            else:
                empty_seen["tuple"] = True
        rng.shuffle(items[i])
    heap = []
    for i in range(1, n + 1):
        k = kinds[i - 1]
        heap.append({"kind": k, "items": [{"k": (6 + j) if k == "dict" else (j - 1), "s": s, "v": v} for j, (s, v) in enumerate(items[i], 1)]})
    return heap


def on_cycle_ok(heap):
    n = len(heap)
    kids = {i: {it["v"] for it in heap[i - 1]["items"] if not it["s"]} for i in range(1, n + 1)}
    for i in range(1, n + 1):
        seen, fr = set(), set(kids[i])
        while fr:
            seen |= fr
            fr = set().union(*[kids[x] for x in fr]) - seen
        if i in seen and heap[i - 1]["kind"] not in ("dict", "list"):
            return False
    return True


def records(rng, count):
    recs = []
    while len(recs) < count:
        tree = rng.random() < 0.35
        heap = random_heap(rng, rng.randint(2, 6), tree)
        if not on_cycle_ok(heap):
            continue
        prog = rng.choice([0, 1, 3, 5, 6, 0, 2, 4, 9] + ([7, 7, 7, 8, 8, 8] if tree and is_tree(heap) else []))
        global LEAFMODE
        LEAFMODE = len(recs) % 3
        objs = build(heap)
        before = snapshot(objs, heap)
        n = len(heap)
        rec = {"prog": prog, "heap": heap, "error": "", "live": [], "result": [{"kind": "list", "items": []}] * n, "enters": [0] * n, "exits": [0] * n,
               "input_unchanged": True, "ev": []}
        try:
            res, enters, exits, newnode, _ = core.with_timeout(lambda: run_remap(prog, heap, objs, wrap=True), 10)
            table = {}

            def walk(o):
                if id(o) not in newnode:
                    raise KeyError("result container not produced by enter/exit")
                nid = newnode[id(o)]
                if nid in table:
                    return
                table[nid] = None
                its = []
                seq = [(IKEY(k_), v_) for k_, v_ in o.items()] if isinstance(o, dict) else list(enumerate(sorted((ILEAF(x) for x in o)) if isinstance(o, (set, frozenset)) else o))
                for k, v in seq:
                    if isinstance(v, (tuple, frozenset)) and len(v) == 0:
                        its.append({"k": k, "s": True, "v": -1 if isinstance(v, tuple) else -2})
                    elif isinstance(v, (dict, list, tuple, set, frozenset)):
                        walk(v)
                        its.append({"k": k, "s": False, "v": newnode[id(v)]})
                    else:
                        its.append({"k": k, "s": True, "v": ILEAF(v)})
                table[nid] = {"kind": type(o).__name__, "items": its}
            walk(res)
            rec["live"] = sorted(table)
            rec["result"] = [table.get(i) or {"kind": heap[i - 1]["kind"], "items": []} for i in range(1, n + 1)]
            rec["enters"] = [enters[i] for i in range(1, n + 1)]
            rec["exits"] = [exits[i] for i in range(1, n + 1)]
            rec["input_unchanged"] = snapshot(objs, heap) == before
            rec["research"] = research_check(objs)
        except core.Hang:
            rec["error"] = "timeout"
        except Exception as ex:
            rec["error"] = core.exc_name(ex)
        recs.append(rec)
    return recs


def main(tier, seed):
    t0 = time.time()
    stats, verdict = Stats(), Verdict(PROP, tier, seed)
    thorough = tier == "thorough"
    r = tlc_must_pass(SPECDIR, "RemapMC.tla", "RemapMC_thorough.cfg" if thorough else "RemapMC.cfg", workers=1, timeout=6000, heap="16g")
    stats.add_tlc(r)
    rows = r.payloads("T")
    stats.extra["rows"] = len(rows)
    parts = [rows[i::core.NCPU * 2] for i in range(core.NCPU * 2)]
    with mp.get_context("fork").Pool(core.NCPU) as pool:
        res = pool.map(_work, parts)
    for x in res:
        if x[0] == "machinery":
            raise core.MachineryError(x[1])
        stats.edges_executed += x[2]
        for row, label, what, detail in x[1]:
            sig = {"subject": "iterutils." + label, "op": label, "what": what.split(":")[0], "prog": row["prog"] if label == "remap" else None}
            verdict.fail(sig, {"heap": row["heap"], "prog": row["prog"], "expected_result": row["result"], "observed": detail})
    # records of larger random heaps, judged by TLC
    recs = records(random.Random(seed), 3000 if thorough else 600)
    sorted_sets = []
    for rec in recs:      # set members are compared as sorted lists: put the expectation's items in the same order
        pass
    canary(stats, rows)
    for rec in recs:
        for label, what, detail in rec.pop("research", []):
            verdict.fail({"subject": "iterutils." + label, "op": label, "what": what.split(":")[0], "prog": None},
                         {"heap": rec["heap"], "observed": detail})
    core.validate_traces_generic(SPECDIR, "RemapTrace.tla", "RemapTrace.cfg", recs, stats, verdict, "iterutils.remap",
                                 sig_extra=lambda tr, ev, p: {"op": "remap", "what": p["st"]["why"], "prog": tr["prog"]})
    stats.trace_events = len(recs)
    stats.nontrivial = {core.canon([x["prog"], x["heap"]]) for x in rows if any(not it["s"] for nd in x["heap"] for it in nd["items"])}
    for x in rows[:: max(1, len(rows) // 4)]:
        stats.sample({"prog": x["prog"], "heap": x["heap"], "result": x["result"]})
    rc = verdict.finish()
    core.write_evidence(PROP, tier, seed, stats.coverage(
        "one TLC state per (well-formed heap, visit program); each materialised, remapped and matched against the exported Rebuild node table by "
        "an identity-respecting isomorphism; input immutability, no shared mutable container under default callbacks, research()/get_path; "
        "plus random heaps of 2-6 nodes recorded through wrapped enter/exit and validated by TLC. distinct_nontrivial = rows whose heap has "
        "at least one container-to-container reference.", True),
        ["bounds: specs/remap/*.cfg", "set/frozenset members are scalars", "cycles only through list/dict"], time.time() - t0, len(verdict.violations))
    return rc


def canary(stats, rows):
    probe = json.loads(json.dumps(next(x for x in rows if x["prog"] == 0 and x["heap"][0]["kind"] == "list" and len(x["heap"][0]["items"]) == 2)))
    probe["result"][0]["items"] = probe["result"][0]["items"][::-1]
    probe["result"][0]["items"][0]["k"], probe["result"][0]["items"][1]["k"] = 0, 1
    a, b = probe["heap"][0]["items"]
    if a == dict(b, k=a["k"]):
        return
    if not [x for x in run_row(probe) if x[1] == "result-differs"]:
        raise core.MachineryError("canary: a reordered expected result was not rejected")
    stats.extra["canary"] = "a reordered expected result is rejected by the isomorphism check"


def replay(path):
    case = json.load(open(path))["case"]
    print(json.dumps(case, indent=1)[:4000])
    return 0
