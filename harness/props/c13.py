"""C13 - funcutils.wraps preserves the wrapped function's signature and call behaviour.

Spec: specs/pycall/PyCall.tla (CPython argument binding, Inject / Expect signature rules), PyCallMC (rows).
"""
import inspect
import json
import multiprocessing as mp
import time

from harness import core
from harness.core import SPECS, Stats, Verdict, tlc_must_pass

PROP = "C13"
META = {
    "technique": "TLA+ model of Python argument binding and of the signature changes of injected / expected; one TLC state per (signature, call shape) with the bound arguments the wrapped function must see; each row replayed on real generated functions (sync and async, with and without annotations) wrapped by funcutils.wraps; the Bind model is itself checked against the interpreter on the unwrapped function",
    "level_text": "For every signature built from 0-3 positional-or-keyword parameters with every count of trailing defaults, optional *args, 0-1 (thorough 0-2) keyword-only parameters with/without defaults and optional **kwargs, and every call shape (0-4 positionals x keyword subsets incl. an unknown name), the wrapper must have exactly the expected own signature (inspect.signature(follow_wrapped=False)), name/doc/module/__wrapped__, raise TypeError exactly when the binding model does, and hand the original function exactly the modelled bound arguments; injected removes exactly one parameter, expected adds exactly one, all other defaults staying on their names; the original function's attributes are unchanged afterwards.",
    "level_note": "Bounds in specs/pycall/*.cfg. The interpreter is the ground truth for binding: the TLA+ Bind is compared with calling the unwrapped def on every row. Positional-only parameters are not generated (the statement does not list them).",
}
SPECDIR = SPECS / "pycall"
NAME = {1: "a", 2: "b", 3: "c", 4: "k1", 5: "k2", 6: "zz", 7: "z", 100: "args", 101: "kw"}
KIND = {inspect.Parameter.POSITIONAL_OR_KEYWORD: 1, inspect.Parameter.VAR_POSITIONAL: 2, inspect.Parameter.KEYWORD_ONLY: 3,
        inspect.Parameter.VAR_KEYWORD: 4, inspect.Parameter.POSITIONAL_ONLY: 0}


def make_func(sig, is_async, annotated, NAME=NAME, fname="target", doc=True, star="args", dstar="kw"):
    pos, ndef = sig["pos"], sig["ndef"]
    parts = []
    for i, n in enumerate(pos):
        p = NAME[n] + (": int" if annotated else "")
        if i >= len(pos) - ndef:
            p += " = %d" % (90 + n) if annotated else "=%d" % (90 + n)
        parts.append(p)
    if sig["star"]:
        parts.append("*" + star)
    elif sig["kwo"]:
        parts.append("*")
    for k in sig["kwo"]:
        p = NAME[k["n"]] + (": str" if annotated else "")
        if k["d"]:
            p += " = %d" % (90 + k["n"]) if annotated else "=%d" % (90 + k["n"])
        parts.append(p)
    if sig["dstar"]:
        parts.append("**" + dstar)
    names = [NAME[n] for n in pos] + [NAME[k["n"]] for k in sig["kwo"]]
    body = "    return {'args': [%s], 'star': %s, 'kw': %s}" % (
        ", ".join("(%r, %s)" % (n, n) for n in names), ("list(%s)" % star) if sig["star"] else "[]", ("sorted(%s)" % dstar) if sig["dstar"] else "[]")
    src = "%sdef %s(%s)%s:\n%s%s\n" % ("async " if is_async else "", fname, ", ".join(parts), " -> dict" if annotated else "",
                                       "    'target doc'\n" if doc else "", body)
    ns = {}
    exec(compile(src, "<c13>", "exec"), ns)
    f = ns[fname]
    f.__module__ = "c13.generated"
    return f


def drive(x):
    if inspect.iscoroutine(x):
        try:
            x.send(None)
        except StopIteration as e:
            return e.value
        raise AssertionError("coroutine did not finish")
    return x


def params_of(fn):
    return [[n, KIND[p.kind], p.default is not inspect.Parameter.empty, p.default] for n, p in inspect.signature(fn, follow_wrapped=False).parameters.items()]


def seen_norm(res):
    return {"args": sorted([[n, v] for n, v in res["args"]]), "star": res["star"], "kw": res["kw"]}


def equalish_defaults(row):
    """The same signature with defaults that compare equal but are different objects (0 / False / 0.0, two empty lists):
    every default must stay on its own parameter name - checked by identity."""
    from boltons import funcutils
    sig, mode = row["sig"], row["mode"]
    f = make_func(sig, False, False)
    palette = {1: 0, 2: False, 3: 0.0, 4: [], 5: [], 6: 0, 7: 0}
    if f.__defaults__:
        f.__defaults__ = tuple(palette[n] for n in sig["pos"][len(sig["pos"]) - sig["ndef"]:])
    if f.__kwdefaults__:
        f.__kwdefaults__ = {NAME[k["n"]]: palette[k["n"]] for k in sig["kwo"] if k["d"]}
    orig = {n: v for n, k, d, v in params_of(f) if d}

    def wrapper(*a, **kw):
        return None
    try:
        if mode == "plain":
            w = funcutils.wraps(f)(wrapper)
        elif mode == "inject":
            w = funcutils.wraps(f, injected=[NAME[row["arg"]]])(wrapper)
        else:
            w = funcutils.wraps(f, expected=[("z", 97)] if mode == "expect_default" else ["z"])(wrapper)
    except Exception as ex:
        return [("equalish-defaults", "wraps-raised:" + core.exc_name(ex), str(ex)[:200])]
    moved = {n: [repr(v), repr(orig.get(n))] for n, k, d, v in params_of(w) if d and n != "z" and v is not orig.get(n, v)}
    if moved:
        return [("equalish-defaults", "default-values", {"wrapper_default_vs_original": moved})]
    return []


def injected_lists(row):
    """injected given as a list that also names something the function takes only through **kwargs (tolerated), before or
    after the real parameter: the wrapper's own signature must lose exactly the real parameter, as with the single name."""
    from boltons import funcutils
    sig = row["sig"]
    if row["mode"] != "inject" or not sig["dstar"]:
        return []
    want_params = [[NAME[p[0]], p[1], p[2]] for p in row["wparams"]]
    inj = NAME[row["arg"]]
    bad = []
    for names in (["via_kwargs", inj], [inj, "via_kwargs"], ["via_kwargs", inj, "also_kw"]):
        f = make_func(sig, False, False)

        def wrapper(*a, **kw):
            return None
        try:
            w = funcutils.wraps(f, injected=list(names))(wrapper)
            got = [[n, k, d] for n, k, d, _ in params_of(w)]
        except Exception as ex:
            bad.append(("injected=%r" % (names,), "wraps-raised:" + core.exc_name(ex), str(ex)[:200]))
            continue
        if got != want_params:
            bad.append(("injected=%r" % (names,), "signature", {"wrapper": got, "expected": want_params}))
    return bad


def stacked(row):
    """Two layers of wraps: the outer wrapper's __wrapped__ is the function it was given (itself a wraps product), its own
    signature is still the expected one, and inspect.unwrap walks every layer down to the original."""
    from boltons import funcutils
    sig, mode = row["sig"], row["mode"]
    if mode not in ("plain", "inject"):
        return []
    want_params = [[NAME[p[0]], p[1], p[2]] for p in row["wparams"]]
    f = make_func(sig, False, False)

    def w1(*a, **kw):
        return None

    def w2(*a, **kw):
        return None
    try:
        inner = funcutils.wraps(f, injected=[NAME[row["arg"]]])(w1) if mode == "inject" else funcutils.wraps(f)(w1)
        outer = funcutils.wraps(inner)(w2)
    except Exception as ex:
        return [("stacked", "wraps-raised:" + core.exc_name(ex), str(ex)[:200])]
    bad = []
    if getattr(outer, "__wrapped__", None) is not inner or getattr(inner, "__wrapped__", None) is not f:
        bad.append(("stacked", "metadata", {"outer.__wrapped__ is inner": getattr(outer, "__wrapped__", None) is inner,
                                            "inner.__wrapped__ is f": getattr(inner, "__wrapped__", None) is f}))
    elif inspect.unwrap(outer) is not f:
        bad.append(("stacked", "metadata", "inspect.unwrap does not reach the original"))
    got = [[n, k, d] for n, k, d, _ in params_of(outer)]
    if got != want_params:
        bad.append(("stacked", "signature", {"wrapper": got, "expected": want_params}))
    if (outer.__name__, outer.__doc__, outer.__module__) != (f.__name__, f.__doc__, f.__module__):
        bad.append(("stacked", "metadata", (outer.__name__, outer.__doc__, outer.__module__)))
    return bad


ODD = {1: "_call", 2: "_func", 3: "fb", 4: "wrapper", 5: "func", 6: "zz", 7: "z", 100: "args", 101: "kw"}


def odd_names(row):
    """The same signature spelt with the names the implementation uses internally (_call, _func, ...), for the parameters,
    for *args / **kwargs and for the function itself, on a function without docstring: own signature, metadata
    (__doc__ stays None), and one accepted call forwarded unchanged."""
    from boltons import funcutils
    sig, mode = row["sig"], row["mode"]
    if mode not in ("plain", "inject"):
        return []
    want_params = [[{"args": "__call", "kw": "_func_"}.get(NAME[p[0]], ODD[p[0]]), p[1], p[2]] for p in row["wparams"]]
    bad = []
    for fname in ("_call", "target"):
        f = make_func(sig, False, False, NAME=ODD, fname=fname, doc=False, star="__call", dstar="_func_")

        def wrapper(*a, **kw):
            if mode == "inject":
                inj = ODD[row["arg"]]
                fpos = [ODD[n] for n in sig["pos"]]
                if inj in fpos:
                    a = list(a)
                    a.insert(min(fpos.index(inj), len(a)), 70)
                else:
                    kw = dict(kw, **{inj: 70})
            return f(*a, **kw)
        try:
            w = funcutils.wraps(f, injected=[ODD[row["arg"]]])(wrapper) if mode == "inject" else funcutils.wraps(f)(wrapper)
        except Exception as ex:
            bad.append(("odd-names", "wraps-raised:" + core.exc_name(ex), str(ex)[:200]))
            continue
        got = [[n, k, d] for n, k, d, _ in params_of(w)]
        if got != want_params:
            bad.append(("odd-names", "signature", {"wrapper": got, "expected": want_params}))
            continue
        if (w.__name__, w.__doc__, w.__module__) != (f.__name__, f.__doc__, f.__module__) or w.__doc__ is not None:
            bad.append(("odd-names", "metadata", (w.__name__, w.__doc__, w.__module__)))
        # one call every such wrapper accepts: all remaining positional parameters by position, required keyword-only ones by name
        npos = len([p for p in row["wparams"] if p[1] == 1])
        kws = {ODD[p[0]]: 5 for p in row["wparams"] if p[1] == 3 and not p[2]}
        if mode == "inject" and ODD[row["arg"]] in [ODD[n] for n in sig["pos"]] and [ODD[n] for n in sig["pos"]].index(ODD[row["arg"]]) < npos:
            continue        # (the little wrapper above only handles an injected parameter at the end of what is passed)
        try:
            r1 = w(*range(1, npos + 1), **kws)
            exp_kw = dict(kws)
            exp_a = list(range(1, npos + 1))
            if mode == "inject":
                inj = ODD[row["arg"]]
                if inj in [ODD[n] for n in sig["pos"]]:
                    exp_a.append(70)
                else:
                    exp_kw[inj] = 70
            r2 = f(*exp_a, **exp_kw)
            if r1 != r2:
                bad.append(("odd-names", "forwarded-arguments", {"wrapper": r1, "direct": r2}))
        except Exception as ex:
            bad.append(("odd-names", "call-raised:" + core.exc_name(ex), str(ex)[:200]))
    return bad


def expected_collisions(row):
    """expected= adding a parameter spelt like the names the generated wrapper uses internally (with and without a
    parameter of the wrapped function already spelt so): the added parameter is in the own signature and a call giving
    every parameter by keyword reaches the wrapper."""
    from boltons import funcutils
    sig = row["sig"]
    if row["mode"] != "plain" or sig["star"] or sig["dstar"]:
        return []
    bad = []
    for names, add in ((NAME, "_call"), (ODD, "__call"), (ODD, "_func"), (NAME, "_func")):
        f = make_func(sig, False, False, NAME=names)
        if add in inspect.signature(f).parameters:
            continue

        def wrapper(*a, **kw):
            return ("reached-wrapper", len(a) + len(kw))
        try:
            w = funcutils.wraps(f, expected=[add])(wrapper)
            params = inspect.signature(w, follow_wrapped=False).parameters
            if add not in params or set(params) - {add} != set(inspect.signature(f).parameters):
                bad.append(("expected=%r" % add, "signature", sorted(params)))
                continue
            r = w(**{n: 1 for n in params})
            if r != ("reached-wrapper", len(params)):
                bad.append(("expected=%r" % add, "forwarded-arguments", repr(r)[:100]))
        except Exception as ex:
            bad.append(("expected=%r" % add, "call-raised:" + core.exc_name(ex), str(ex)[:200]))
    return bad


def expected_names(row):
    """expected= with names of every length and several names at once (bare names, pairs and mappings mixed the ways the
    argument accepts): the own signature gains exactly those parameters - required when bare, with their default when
    paired - and every other parameter keeps its kind and default; a call giving everything by keyword reaches the wrapper."""
    from boltons import funcutils
    sig = row["sig"]
    if row["mode"] != "plain":
        return []
    f0 = make_func(sig, False, False)
    have = set(inspect.signature(f0).parameters)
    shapes = [("two-letter name", ["db"], [("db", None)]), ("two two-letter names", ["db", "tx"], [("db", None), ("tx", None)]),
              ("two-letter bare string", "db", [("db", None)]), ("tuple of one two-letter name", ("xy",), [("xy", None)]),
              ("pair then two-letter name", [("q9", 5), "db"], [("q9", 5), ("db", None)]),
              ("three-letter and one-letter", ["abc", "d"], [("abc", None), ("d", None)]),
              ("mapping with a two-letter key", {"db": 1, "xyz": 2}, [("db", 1), ("xyz", 2)]),
              ("pairs given as two-element lists", [["pq", 7]], [("pq", 7)]),
              ("generator of names", (n_ for n_ in ["db", "e"]), [("db", None), ("e", None)])]
    bad = []
    for label, exp, added in shapes:
        if have & {n for n, _ in added}:
            continue
        f = make_func(sig, False, False)

        def wrapper(*a, **kw):
            return ("reached-wrapper", len(a) + len(kw))        # positional-or-keyword parameters arrive positionally
        try:
            w = funcutils.wraps(f, expected=exp)(wrapper)
            got = {n: (k, hd, d) for n, k, hd, d in params_of(w)}
            orig = {n: (k, hd, d) for n, k, hd, d in params_of(f)}
            if set(got) != set(orig) | {n for n, _ in added}:
                bad.append(("expected: " + label, "signature", sorted(got)))
                continue
            if any(got[n] != orig[n] for n in orig):
                bad.append(("expected: " + label, "expected-changes-other-parameters", sorted(got)))
                continue
            wrong = [n for n, d in added if got[n][1] != (d is not None) or (d is not None and got[n][2] != d)]
            if wrong:
                bad.append(("expected: " + label, "expected-parameter-wrong", wrong))
                continue
            names = [n for n, (k, hd, d) in got.items() if k in (1, 3)]
            r = w(**{n: 1 for n in names})
            if r != ("reached-wrapper", len(names)):
                bad.append(("expected: " + label, "forwarded-arguments", repr(r)[:100]))
        except Exception as ex:
            bad.append(("expected: " + label, "call-raised:" + core.exc_name(ex), str(ex)[:200]))
    return bad


PERM = {1: "c", 2: "a", 3: "b", 4: "y", 5: "x", 6: "zz", 7: "z", 100: "args", 101: "kw"}      # definition order is not name order


def more_shapes(row):
    """Shapes the grid does not hold: parameter names whose definition order is not their alphabetical order; two real
    parameters injected in one call; falsy defaults for expected parameters; an annotation of its own on every parameter
    (also on * and **); the options update_dict / inject_to_varkw / hide_wrapped; a wrapper whose async-ness differs from
    the function's; lambdas and functools.partial objects as the wrapped callable."""
    import functools
    from boltons import funcutils
    sig, mode = row["sig"], row["mode"]
    bad = []

    def own(w):
        return [[n, k, d] for n, k, d, _ in params_of(w)]

    def wrapper(*a, **kw):
        return ("wrapper", a, sorted(kw))
    if mode == "plain":
        # 1. permuted names: same kinds and defaults in the same positions, the permuted names
        f = make_func(sig, False, False, NAME=PERM)
        try:
            w = funcutils.wraps(f)(wrapper)
            if own(w) != own(f):
                bad.append(("permuted-names", "signature", {"wrapper": own(w), "function": own(f)}))
            names = [n for n, k, d in own(f) if k in (1, 3)]
            for drop in names[:2]:
                f2 = make_func(sig, False, False, NAME=PERM)
                w2 = funcutils.wraps(f2, injected=[drop])(wrapper)
                want = [p_ for p_ in own(f2) if p_[0] != drop]
                # (removing a positional parameter without default in front of ones with defaults is refused or shifts
                # nothing: compare names and which of them keep a default, by name)
                if sorted((n, d) for n, k, d in own(w2)) != sorted((n, d) for n, k, d in want):
                    bad.append(("permuted-names/injected=%s" % drop, "signature", {"wrapper": own(w2), "expected": want}))
        except Exception as ex:
            bad.append(("permuted-names", "wraps-raised:" + core.exc_name(ex), str(ex)[:200]))
        # 2. two real parameters injected in one call
        f = make_func(sig, False, False)
        names = [n for n, k, d in own(f) if k in (1, 3)]
        if len(names) >= 2:
            for pair in ([names[0], names[-1]], [names[-1], names[0]], names[:2]):
                if len(set(pair)) < 2:
                    continue
                f2 = make_func(sig, False, False)
                try:
                    w2 = funcutils.wraps(f2, injected=list(pair))(wrapper)
                    want = [p_ for p_ in own(f2) if p_[0] not in pair]
                    if sorted((n, d) for n, k, d in own(w2)) != sorted((n, d) for n, k, d in want) or [n for n, k, d in own(w2)] != [n for n, k, d in want]:
                        bad.append(("injected=%r" % (pair,), "signature", {"wrapper": own(w2), "expected": want}))
                except Exception as ex:
                    bad.append(("injected=%r" % (pair,), "wraps-raised:" + core.exc_name(ex), str(ex)[:200]))
        # 3. falsy defaults for an expected parameter: it HAS that default
        if "z" not in names:
            for dflt in (None, 0, "", (), False):
                f2 = make_func(sig, False, False)
                try:
                    w2 = funcutils.wraps(f2, expected=[("z", dflt)] if dflt != "" else {"z": dflt})(wrapper)
                    zs = [p_ for p_ in params_of(w2) if p_[0] == "z"]
                    if len(zs) != 1 or not zs[0][2] or zs[0][3] is not dflt and zs[0][3] != dflt or type(zs[0][3]) is not type(dflt):
                        bad.append(("expected default %r" % (dflt,), "expected-parameter-wrong", [[p_[0], p_[2], repr(p_[3])] for p_ in zs]))
                except Exception as ex:
                    bad.append(("expected default %r" % (dflt,), "wraps-raised:" + core.exc_name(ex), str(ex)[:200]))
        # 4. an annotation of its own on every parameter, on * and ** and on the return value
        pos_, kwo_ = [NAME[n] for n in sig["pos"]], [NAME[k["n"]] for k in sig["kwo"]]
        ann_src = "def target(%s) -> 'ret':\n    return None\n" % ", ".join(
            ["%s: 'T_%s'%s" % (n, n, " = 1" if i >= len(pos_) - sig["ndef"] else "") for i, n in enumerate(pos_)] +
            (["*args: 'T_args'"] if sig["star"] else (["*"] if kwo_ else [])) +
            ["%s: 'T_%s'%s" % (NAME[k["n"]], NAME[k["n"]], " = 2" if k["d"] else "") for k in sig["kwo"]] +
            (["**kw: 'T_kw'"] if sig["dstar"] else []))
        ns = {}
        try:
            exec(compile(ann_src, "<c13-ann>", "exec"), ns)
            fa = ns["target"]
            wa = funcutils.wraps(fa)(wrapper)
            if dict(wa.__annotations__) != dict(fa.__annotations__) or str(inspect.signature(wa, follow_wrapped=False)) != str(inspect.signature(fa)):
                bad.append(("annotation per parameter", "signature", {"wrapper": str(inspect.signature(wa, follow_wrapped=False)), "function": str(inspect.signature(fa))}))
            if pos_:
                wi = funcutils.wraps(fa, injected=[pos_[0]])(wrapper)
                # (the statement speaks of the signature; whether __annotations__ still names the removed parameter is not judged)
                if pos_[0] in inspect.signature(wi, follow_wrapped=False).parameters:
                    bad.append(("annotation per parameter/injected", "signature", {"annotations": sorted(wi.__annotations__)}))
        except Exception as ex:
            bad.append(("annotation per parameter", "wraps-raised:" + core.exc_name(ex), str(ex)[:200]))
        # 5. options: the own signature is the same under each
        for label, kw_ in (("update_dict=False", {"update_dict": False}), ("inject_to_varkw=False", {"inject_to_varkw": False}), ("hide_wrapped=True", {"hide_wrapped": True})):
            f2 = make_func(sig, False, False)
            f2.marker = "on the function"
            try:
                w2 = funcutils.wraps(f2, **kw_)(wrapper)
                if own(w2) != own(f2) or w2.__name__ != f2.__name__ or w2.__doc__ != f2.__doc__:
                    bad.append((label, "signature", {"wrapper": own(w2), "function": own(f2)}))
                elif ("hide_wrapped" in kw_) == hasattr(w2, "__wrapped__"):
                    bad.append((label, "metadata", "__wrapped__ %s" % ("present" if hasattr(w2, "__wrapped__") else "absent")))
                elif ("update_dict" in kw_) == (getattr(w2, "marker", None) == "on the function"):
                    bad.append((label, "metadata", "function attributes %s" % ("copied" if hasattr(w2, "marker") else "not copied")))
            except Exception as ex:
                bad.append((label, "wraps-raised:" + core.exc_name(ex), str(ex)[:200]))
        # 6. async-ness follows the wrapped function, whatever the wrapper is
        for f_async in (False, True):
            f2 = make_func(sig, f_async, False)
            if f_async:
                def wr(*a, **kw):                       # a plain function handing the coroutine on
                    return f2(*a, **kw)
            else:
                async def wr(*a, **kw):                 # a coroutine function around a plain function
                    return f2(*a, **kw)
            try:
                w2 = funcutils.wraps(f2)(wr)
                if own(w2) != own(f2) or inspect.iscoroutinefunction(w2) != f_async:
                    bad.append(("async function=%s, wrapper=%s" % (f_async, not f_async), "signature",
                                {"wrapper_is_coroutine_function": inspect.iscoroutinefunction(w2), "wrapper": own(w2)}))
            except Exception as ex:
                bad.append(("async function=%s, wrapper=%s" % (f_async, not f_async), "wraps-raised:" + core.exc_name(ex), str(ex)[:200]))
        # 7. a lambda and a functools.partial object as the wrapped callable
        if not sig["kwo"] and not sig["star"] and not sig["dstar"]:
            lam = eval("lambda %s: None" % ", ".join("%s%s" % (n, "=1" if i >= len(pos_) - sig["ndef"] else "") for i, n in enumerate(pos_)))
            try:
                wl = funcutils.wraps(lam)(wrapper)
                if own(wl) != own(lam) or wl.__name__ != "<lambda>":
                    bad.append(("lambda", "signature", {"wrapper": own(wl), "function": own(lam), "name": wl.__name__}))
            except Exception as ex:
                bad.append(("lambda", "wraps-raised:" + core.exc_name(ex), str(ex)[:200]))
            if pos_:
                f2 = make_func(sig, False, False)
                part = functools.partial(f2, 5)
                try:
                    wp = funcutils.wraps(part)(wrapper)
                    ref = [[n, KIND[p_.kind], p_.default is not inspect.Parameter.empty] for n, p_ in inspect.signature(part).parameters.items()]
                    if own(wp) != ref:
                        bad.append(("functools.partial", "signature", {"wrapper": own(wp), "inspect.signature(partial)": ref}))
                except Exception as ex:
                    bad.append(("functools.partial", "wraps-raised:" + core.exc_name(ex), str(ex)[:200]))
    return bad


def takeover(row):
    """A decorator that takes a parameter over and hands it out again in its own version - the same name in injected and in
    expected: the parameter is there, with the new default, and nothing else changed."""
    from boltons import funcutils
    sig, mode = row["sig"], row["mode"]
    if mode != "inject":
        return []
    name = NAME[row["arg"]]
    f = make_func(sig, False, False)

    def wrapper(*a, **kw):
        return None
    try:
        w = funcutils.wraps(f, injected=[name], expected=[(name, 77)])(wrapper)
        got = {n: (k, hd, d) for n, k, hd, d in params_of(w)}
        orig = {n: (k, hd, d) for n, k, hd, d in params_of(f)}
        if set(got) != set(orig) or name not in got or not got[name][1] or got[name][2] != 77:
            return [("injected and expected name %r" % name, "expected-parameter-wrong", {"wrapper": sorted(got), "entry": list(got.get(name, ()))[:3]})]
        if any(got[n] != orig[n] for n in orig if n != name):
            return [("injected and expected name %r" % name, "expected-changes-other-parameters", sorted(got))]
    except Exception as ex:
        return [("injected and expected name %r" % name, "wraps-raised:" + core.exc_name(ex), str(ex)[:200])]
    return []


def decorator_reuse(row):
    """The object wraps(func, ...) returns is a decorator like any other: applied to a second and a third wrapper it gives
    the same own signature as the first time (arguments given as re-usable containers: a list, a mapping, a string)."""
    from boltons import funcutils
    sig, mode = row["sig"], row["mode"]
    if mode not in ("inject", "expect", "expect_default", "plain"):
        return []
    bad = []
    forms = {"plain": [{}], "inject": [{"injected": [NAME[row["arg"]]]}, {"injected": NAME[row["arg"]]}] if mode == "inject" else [],
             "expect": [{"expected": ["z"]}, {"expected": "z"}, {"expected": ("z",)}],
             "expect_default": [{"expected": [("z", 97)]}, {"expected": {"z": 97}}]}[mode]
    for kw_ in forms:
        f = make_func(sig, False, False)
        try:
            deco = funcutils.wraps(f, **kw_)
            sigs = []
            for n_ in range(3):
                def wrapper(*a, **kw):
                    return None
                sigs.append([[n, k, d] for n, k, d, _ in params_of(deco(wrapper))])
            if sigs[1] != sigs[0] or sigs[2] != sigs[0]:
                bad.append(("decorator applied again (%s)" % ", ".join("%s=%r" % kv for kv in kw_.items()), "signature",
                            {"first": sigs[0], "second": sigs[1], "third": sigs[2]}))
        except Exception as ex:
            bad.append(("decorator applied again", "wraps-raised:" + core.exc_name(ex), str(ex)[:200]))
    return bad


def argument_forms(row):
    """injected / expected spelt in their other accepted forms (a bare string, a tuple, a mapping), injected and expected
    in one call, update_wrapper called directly (positionally and with func=): always the same own signature."""
    from boltons import funcutils
    sig, mode = row["sig"], row["mode"]
    if mode not in ("inject", "expect", "expect_default", "plain"):
        return []
    want = [[NAME[p[0]], p[1], p[2]] for p in row["wparams"]]
    bad = []

    def wrapper(*a, **kw):
        return None

    def own(w):
        return [[n, k, d] for n, k, d, _ in params_of(w)]
    trials = []
    if mode == "inject":
        inj = NAME[row["arg"]]
        trials = [("injected=str", lambda f: funcutils.wraps(f, injected=inj)(wrapper), want),
                  ("injected=tuple", lambda f: funcutils.wraps(f, injected=(inj,))(wrapper), want),
                  ("injected=iterator", lambda f: funcutils.wraps(f, injected=iter([inj]))(wrapper), want),
                  ("update_wrapper(wrapper, func, injected)", lambda f: funcutils.update_wrapper(wrapper, f, injected=[inj]), want),
                  ("update_wrapper(wrapper, func=, injected=)", lambda f: funcutils.update_wrapper(wrapper, func=f, injected=[inj]), want)]
    elif mode == "plain":
        trials = [("update_wrapper(wrapper, func)", lambda f: funcutils.update_wrapper(wrapper, f), want),
                  ("update_wrapper(wrapper, func=)", lambda f: funcutils.update_wrapper(wrapper, func=f), want)]
    else:
        if mode == "expect_default":
            trials = [("expected=mapping", lambda f: funcutils.wraps(f, expected={"z": 97})(wrapper), None),
                      ("expected=tuple-of-pairs", lambda f: funcutils.wraps(f, expected=(("z", 97),))(wrapper), None)]
        else:
            trials = [("expected=str", lambda f: funcutils.wraps(f, expected="z")(wrapper), None),
                      ("expected=tuple", lambda f: funcutils.wraps(f, expected=("z",))(wrapper), None)]
    for label, make, expect in trials:
        f = make_func(sig, False, False)
        try:
            w = make(f)
            got = own(w)
        except Exception as ex:
            bad.append((label, "wraps-raised:" + core.exc_name(ex), str(ex)[:200]))
            continue
        if expect is None:
            # the reference form of the same mode
            ref = own(funcutils.wraps(make_func(sig, False, False), expected=[("z", 97)] if mode == "expect_default" else ["z"])(wrapper))
            expect = ref
        if got != expect:
            bad.append((label, "signature", {"wrapper": got, "expected": expect}))
        elif getattr(w, "__wrapped__", None) is not f or w.__name__ != f.__name__:
            bad.append((label, "metadata", w.__name__))
    if mode == "inject" and "z" not in [NAME[p[0]] for p in row["wparams"]]:
        f = make_func(sig, False, False)
        try:
            w = funcutils.wraps(f, injected=[NAME[row["arg"]]], expected=["z"])(wrapper)
            names = [n for n, k, d in own(w)]
            if sorted(names) != sorted([p[0] for p in want] + ["z"]) or [x for x in names if x != "z"] != [p[0] for p in want]:
                bad.append(("injected+expected", "signature", {"wrapper": names, "expected": [p[0] for p in want] + ["z (somewhere)"]}))
        except Exception as ex:
            bad.append(("injected+expected", "wraps-raised:" + core.exc_name(ex), str(ex)[:200]))
    return bad


def run_row(row):
    from boltons import funcutils
    bad = equalish_defaults(row) + injected_lists(row) + stacked(row) + odd_names(row) + expected_collisions(row) + expected_names(row) + more_shapes(row) + decorator_reuse(row) + takeover(row) + argument_forms(row)
    sig, mode = row["sig"], row["mode"]
    want_params = [[NAME[p[0]], p[1], p[2]] for p in row["wparams"]]
    seen = row["seen"]
    for is_async, annotated in ((False, False), (True, True), (False, True), (True, False)):
        f = make_func(sig, is_async, annotated)
        before = (f.__defaults__, dict(f.__kwdefaults__ or {}), dict(f.__annotations__), f.__name__, f.__doc__)
        label = "%s%s" % ("async," if is_async else "", "annotated" if annotated else "plain")
        fpos = [NAME[n] for n in sig["pos"]]
        try:
            if mode == "plain":
                if is_async:
                    async def wrapper(*a, **kw):
                        return await f(*a, **kw)
                else:
                    def wrapper(*a, **kw):
                        return f(*a, **kw)
                w = funcutils.wraps(f)(wrapper)
            elif mode == "inject":
                inj = NAME[row["arg"]]
                wpos = [n for n in fpos if n != inj]

                def call_f(a, kw, inj=inj, wpos=wpos):
                    vals = dict(zip(wpos, a))
                    extra = list(a[len(wpos):])
                    kw = dict(kw)
                    if inj in fpos:
                        plist = [70 + row["arg"] if p == inj else vals[p] for p in fpos]
                    else:
                        plist = [vals[p] for p in fpos]
                        kw[inj] = 70 + row["arg"]
                    return f(*plist, *extra, **kw)
                if is_async:
                    async def wrapper(*a, **kw):
                        return await call_f(a, kw)
                else:
                    def wrapper(*a, **kw):
                        return call_f(a, kw)
                w = funcutils.wraps(f, injected=[inj])(wrapper)
            else:
                hasdef = mode == "expect_default"

                def wrapper(*a, **kw):
                    return None
                w = funcutils.wraps(f, expected=[("z", 97)] if hasdef else ["z"])(wrapper)
                got = params_of(w)
                others = [[n, k, d] for n, k, d, _ in got if n != "z"]
                zs = [[n, k, d] for n, k, d, _ in got if n == "z"]
                orig = [[n, k, d] for n, k, d, _ in params_of(f)]
                if others != orig:
                    bad.append((label, "expected-changes-other-parameters", {"wrapper": got and [[n, k, d] for n, k, d, _ in got], "original": orig}))
                elif len(zs) != 1 or zs[0][2] != hasdef or zs[0][1] not in (1, 3):
                    bad.append((label, "expected-parameter-wrong", {"z": zs}))
                else:
                    dvals = {n: v for n, k, d, v in got if d and n != "z"}
                    ovals = {n: v for n, k, d, v in params_of(f) if d}
                    if dvals != ovals:
                        bad.append((label, "expected-moves-default-values", {"wrapper": dvals, "original": ovals}))
                continue
        except Exception as ex:
            bad.append((label, "wraps-raised:" + core.exc_name(ex), str(ex)[:200]))
            continue
        got = params_of(w)
        if [[n, k, d] for n, k, d, _ in got] != want_params:
            bad.append((label, "signature", {"wrapper": [[n, k, d] for n, k, d, _ in got], "expected": want_params}))
            continue
        # annotations are part of the signature: every surviving parameter keeps its own, and the return annotation stays
        sw, sf = inspect.signature(w, follow_wrapped=False), inspect.signature(f, follow_wrapped=False)
        wrong = [n for n, p_ in sw.parameters.items() if n in sf.parameters and p_.annotation != sf.parameters[n].annotation]
        if wrong or sw.return_annotation != sf.return_annotation:
            bad.append((label, "annotations", {"parameters": wrong, "return": str(sw.return_annotation)}))
        if any(d and v != 90 + next(i for i, nm in NAME.items() if nm == n) for n, k, d, v in got):
            bad.append((label, "default-values", got))
        if (w.__name__, w.__doc__, w.__module__) != (f.__name__, f.__doc__, f.__module__) or getattr(w, "__wrapped__", None) is not f:
            bad.append((label, "metadata", (w.__name__, w.__doc__, w.__module__)))
        if inspect.iscoroutinefunction(w) != is_async:
            bad.append((label, "async-ness", inspect.iscoroutinefunction(w)))
        pos = list(range(1, row["npos"] + 1))
        kws = {NAME[n]: 50 + n for n in row["kws"]}
        if mode == "plain":      # the binding model against the interpreter (environment binding)
            try:
                direct = seen_norm(drive(f(*pos, **kws)))
                direct_ok = True
            except TypeError:
                direct_ok = False
            exp_direct = {"args": sorted([[NAME[a[0]], a[1]] for a in seen["args"]]), "star": seen["star"], "kw": [NAME[n] for n in seen["kw"]]}
            if direct_ok != seen["ok"] or (direct_ok and direct != exp_direct):
                raise core.MachineryError("TLA+ Bind disagrees with the interpreter on %r" % (row,))
        try:
            res = seen_norm(drive(w(*pos, **kws)))
            ok = True
        except TypeError:
            ok = False
        except Exception as ex:
            bad.append((label, "call-raised:" + core.exc_name(ex), str(ex)[:200]))
            continue
        exp = {"args": sorted([[NAME[a[0]], a[1]] for a in seen["args"]]), "star": seen["star"], "kw": [NAME[n] for n in seen["kw"]]}
        if ok != seen["ok"]:
            bad.append((label, "accepts-different-calls", {"wrapper_accepts": ok, "model_accepts": seen["ok"]}))
        elif ok and res != exp:
            bad.append((label, "forwards-different-arguments", {"seen_by_function": res, "expected": exp}))
        after = (f.__defaults__, dict(f.__kwdefaults__ or {}), dict(f.__annotations__), f.__name__, f.__doc__)
        if after != before:
            bad.append((label, "original-function-modified", {"before": str(before), "after": str(after)}))
    return bad


def _work(rows):
    out = []
    try:
        for row in rows:
            for label, what, detail in run_row(row):
                out.append((row, label, what, detail))
    except core.MachineryError as ex:
        return ("machinery", str(ex))
    return ("ok", out, len(rows))


def main(tier, seed):
    t0 = time.time()
    stats, verdict = Stats(), Verdict(PROP, tier, seed)
    thorough = tier == "thorough"
    r = tlc_must_pass(SPECDIR, "PyCallMC.tla", "PyCallMC_thorough.cfg" if thorough else "PyCallMC.cfg", workers=1, timeout=3000, heap="12g")
    stats.add_tlc(r)
    rows = r.payloads("T")
    stats.extra["rows"] = len(rows)
    parts = [rows[i::core.NCPU * 2] for i in range(core.NCPU * 2)]
    with mp.get_context("fork").Pool(core.NCPU) as pool:
        res = pool.map(_work, parts)
    for x in res:
        if x[0] == "machinery":
            raise core.MachineryError(x[1])
        stats.edges_executed += x[2]
        for row, label, what, detail in x[1]:
            sig = {"subject": "funcutils.wraps", "op": row["mode"], "what": what, "has_positional_defaults": row["sig"]["ndef"] > 0}
            verdict.fail(sig, {"signature": row["sig"], "mode": row["mode"], "arg": NAME.get(row["arg"]), "npos": row["npos"],
                               "kws": [NAME[n] for n in row["kws"]], "flavour": label, "detail": detail})
    probe = json.loads(json.dumps(next(x for x in rows if x["mode"] == "plain" and x["seen"]["ok"] and x["seen"]["args"])))
    probe["seen"]["args"][0][1] += 1
    try:
        caught = bool(run_row(probe))
    except core.MachineryError:
        caught = True
    if not caught:
        raise core.MachineryError("canary: altered bound-argument prediction was not rejected")
    stats.extra["canary"] = "an altered bound-argument prediction is rejected"
    stats.nontrivial = {core.canon([x["mode"], x["arg"], x["sig"], x["npos"], x["kws"]]) for x in rows}
    for x in rows[:: max(1, len(rows) // 5)]:
        stats.sample({k: x[k] for k in ("mode", "arg", "sig", "npos", "kws", "seen")})
    rc = verdict.finish()
    core.write_evidence(PROP, tier, seed, stats.coverage(
        "one TLC state per (signature, call shape) [plain and injected] and per signature [expected]; each replayed on generated sync/plain and "
        "async/annotated functions wrapped by funcutils.wraps: own signature, metadata, TypeError-or-bound-arguments, original untouched. "
        "distinct_nontrivial = distinct rows.", True),
        ["bounds: specs/pycall/*.cfg", "interpreter is the ground truth for binding (model cross-checked on every plain row)"], time.time() - t0, len(verdict.violations))
    return rc


def replay(path):
    case = json.load(open(path))["case"]
    print(json.dumps(case, indent=1)[:3000])
    return 0
