#!/bin/sh
# usage: keepseed.sh <worktree> <seed-id> <Cxx> "<what it needs to manifest>" "<detected by>"
# Confirms: demo passes on original, fails with change; test suite passes with change. Then stores under /verif/seeded/<seed-id>.
W=$1; ID=$2; P=$3; NEEDS=$4; DET=$5
cd $W || exit 2
git diff -- boltons > /tmp/keepseed.diff
[ -s /tmp/keepseed.diff ] || { echo "no change in worktree"; exit 2; }
/venv/bin/python demo.py >/tmp/keepseed.with 2>&1; RCW=$?
# (git stash is shared between worktrees of one repository: use the diff itself)
git checkout -q -- boltons
/venv/bin/python demo.py >/tmp/keepseed.without 2>&1; RCO=$?
git apply /tmp/keepseed.diff || { echo "could not re-apply the change"; exit 2; }
TESTS=$(/venv/bin/python -m pytest -q -p no:cacheprovider tests 2>&1 | tail -1)
echo "demo with change rc=$RCW, without rc=$RCO; tests: $TESTS"
case "$TESTS" in *failed*|*error*) echo "TESTS FAIL WITH CHANGE - not kept"; exit 1;; esac
[ $RCW -ne 0 ] && [ $RCO -eq 0 ] || { echo "demo does not discriminate - not kept"; exit 1; }
D=/verif/seeded/$ID; mkdir -p $D
cp /tmp/keepseed.diff $D/patch.diff; cp demo.py $D/demo.py
BASE=$(git rev-parse HEAD)
jq -n --arg p "$P" --arg needs "$NEEDS" --arg det "$DET" --arg tests "$TESTS" --arg base "$BASE" \
  --arg with "$(tail -3 /tmp/keepseed.with)" --arg without "$(tail -2 /tmp/keepseed.without)" \
  '{property:$p, needs_to_manifest:$needs, base_commit:$base, confirmed:{demo_with_change_rc_nonzero:true, demo_without_change_rc_zero:true, demo_tail_with:$with, demo_tail_without:$without, test_suite_with_change:$tests}, detected_by:$det, ran:["cd <worktree> && /venv/bin/python demo.py (with and without the change)","/venv/bin/python -m pytest -q -p no:cacheprovider tests (with the change)","harness/seedtest.sh <worktree> <prop> quick"]}' > $D/meta.json
echo kept $D
