#!/bin/sh
# usage: mkbenign.sh C02 /tmp/wt/B02 "files/functions hint"
ID=$1; WT=$2; HINT=$3
TEXT=$(jq -r "select(.id==\"$ID\") | \"\(.title)\n\n\(.statement)\"" /verif/properties.jsonl)
FILES=$(jq -r "select(.id==\"$ID\") | .anchors.files | join(\", \")" /verif/properties.jsonl)
cat <<EOT
You are helping evaluate a verification effort for the open-source Python library mahmoud/boltons. You have your own scratch git worktree of the library at $WT (work ONLY inside that directory; never touch /repo or /verif and do not read anything under /verif). Python is /venv/bin/python; the test suite: cd $WT && /venv/bin/python -m pytest -q -p no:cacheprovider tests  (423 tests).

Here is a semantic property the library satisfies:

--- PROPERTY $ID ---
$TEXT
--- END ---

Your task: make a substantial but BEHAVIOUR-PRESERVING refactoring of the code that implements this property (files: $FILES; $HINT). The kind of change a maintainer makes when cleaning up: rename private attributes / helper methods / local variables, reorder independent statements, extract or inline helpers, replace a loop by a comprehension or the reverse, change an internal data representation to an equivalent one, restructure control flow, add caching of something that is provably unchanged. The public behaviour - every return value, exception type, and all observable state through the public API - must stay EXACTLY the same for every input, and the property above must still hold for every input. Do not change public names or signatures. Touch at least 25 lines. Be careful: do NOT introduce any behavioural change, however small.

Deliverables, inside $WT: the change left applied; $WT/patch.diff (git diff -- boltons); confirm the full test suite passes and write a short $WT/selftest.py that exercises the refactored code paths on a few hundred random inputs comparing the refactored module against the original (you can load the original source from 'git show HEAD:boltons/<file>.py' into a separate module object) and exits 0.

Final answer (under 150 words): what you refactored, the pytest summary line, and the selftest result.
EOT
