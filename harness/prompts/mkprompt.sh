#!/bin/sh
# usage: mkprompt.sh C02 /tmp/wt/C02a "flavour hint"
ID=$1; WT=$2; HINT=$3
TEXT=$(jq -r "select(.id==\"$ID\") | \"\(.title)\n\n\(.statement)\n\nQuantified over: \(.quantifier.text)\"" /verif/properties.jsonl)
cat <<EOT
You are helping evaluate a verification effort for the open-source Python library mahmoud/boltons. You have your own scratch git worktree of the library at $WT (work ONLY inside that directory; never touch /repo or /verif and do not read anything under /verif). Python is /venv/bin/python; the existing test suite is run with:  cd $WT && /venv/bin/python -m pytest -q -p no:cacheprovider tests  (423 tests, about 15 s; all pass on the unmodified tree).

Here is a semantic property the library is supposed to satisfy:

--- PROPERTY $ID ---
$TEXT
--- END ---

Your task: write ONE realistic change to the library source (under $WT/boltons/) that BREAKS this property while the code still imports and the whole existing test suite still passes. It should look like a plausible regression a maintainer could introduce (a refactor, an 'optimisation', an off-by-one, a dropped call, a changed condition), not sabotage with obviously dead or bizarre code, and it must not special-case magic values. $HINT
Prefer a change that needs something specific to manifest - a multi-step sequence of operations, an unusual input, a particular interleaving or fault at a particular point, or two cooperating sites that each look fine alone - rather than one that ordinary use would expose at once.

Deliverables, all inside $WT:
1. The source change itself, left applied in the worktree (uncommitted is fine).
2. $WT/demo.py - a small standalone program (run as: cd $WT && /venv/bin/python demo.py) that exits 0 on the ORIGINAL code and exits non-zero (assertion failure) WITH your change, by exercising the public API and showing the property broken. Verify both: do NOT use git stash (it is shared between worktrees); use: git diff -- boltons > patch.diff; git checkout -- boltons; run the demo; git apply patch.diff to run it against the original.
3. $WT/patch.diff - output of 'git diff -- boltons' for your change.
4. Confirm the full test suite passes WITH your change applied (run it and report the summary line).

In your final answer report: the files/functions changed, one paragraph on what the change breaks and what is needed for it to manifest, the demo's output with and without the change, and the pytest summary line. Keep the final answer under 250 words.
EOT
