#!/bin/sh
ID=$1
NUM=$(echo $ID | sed 's/C//')
TEXT=$(jq -r "select(.id==\"$ID\") | \"\(.title)\n\n\(.statement)\n\nQuantified over: \(.quantifier.text)\"" /verif/properties.jsonl)
FILES=$(jq -r "select(.id==\"$ID\") | .anchors.files | join(\", \")" /verif/properties.jsonl)
LOW=$(echo $NUM | sed 's/^0*//')
cat <<EOT
You are auditing the INPUT COVERAGE of a verification harness. READ-ONLY task: do not modify, create or delete any file anywhere (no writes at all, not even scratch files under /verif or /repo; if you want to experiment, use python -c one-liners that only read).

The library is mahmoud/boltons at /repo (source files for this property: $FILES under /repo/boltons/). The property being verified:

--- PROPERTY $ID ---
$TEXT
--- END ---

The harness for this property is /verif/harness/props/c$(printf %02d $LOW).py (helpers in /verif/harness/core.py, and for C03 sched.py, for C04/C05 asave.py and fsio.py); its TLA+ specifications are under /verif/specs/ (the adapter's docstring / META names them). The harness generates inputs / operation sequences / scenarios, runs the real code and has TLC judge the results.

Your job: find what the property COVERS (by its statement and quantifier) that the harness NEVER EXERCISES. Read the real implementation in /repo/boltons carefully - every public entry point, parameter, option, accepted argument type, branch and special case relevant to this property - and compare with what the harness actually generates and checks. Think about: (1) API entry points or aliases never called; (2) parameters/options never varied or only given one value; (3) argument types/forms never passed (iterators vs lists, mappings vs pairs, keyword forms, mixed forms in one call, subclasses, other instances of the same class); (4) value classes never generated (empty, None, duplicates, equal-but-distinct objects, unhashable/unorderable, very long, unicode classes, boundary sizes around constants in the code); (5) object life-cycle situations (object reused after an error or after completion, copies that keep living and are mutated on either side, results mutated by the caller, operations while iterating, re-entrancy via callbacks); (6) orderings / histories needed to reach a branch in the code (thresholds, compaction, rollover, cache states); (7) code branches in the implementation that no generated input reaches; (8) checks that are weaker than the statement (something the statement promises that is never compared).

Report ONLY concrete gaps, most valuable first, at most 15 bullets. For each: what is not exercised, the code location in /repo/boltons (function/line) it would reach, and a one-line suggestion for how the harness could generate it. Do not list things the harness already does. Do not propose things outside the property's statement. Keep the answer under 500 words.
EOT
