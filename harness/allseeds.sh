#!/bin/sh
# usage: allseeds.sh [tier]  - run every seeded change through its property's check; prints one line per seed
cd "$(dirname "$0")/.." || exit 2
T=${1:-quick}
for d in seeded/C*; do
  P=$(jq -r .property $d/meta.json)
  OUT=$(harness/seedtest.sh $PWD/$d $P $T 2>&1 | tail -1)
  case "$OUT" in *rc=1*) echo "caught  $d";; *"DOES NOT APPLY"*) echo "STALE   $d (patch no longer applies)";; *) echo "MISSED  $d :: $OUT";; esac
done
for d in seeded/benign-*; do
  [ -f $d/patch.diff ] || continue
  for P in $(jq -r '.checked_against[]? // empty' $d/meta.json 2>/dev/null); do
    OUT=$(harness/seedtest.sh $PWD/$d $P $T 2>&1 | tail -1)
    case "$OUT" in *rc=0*) echo "quiet   $d $P";; *) echo "ALARM   $d $P :: $OUT";; esac
  done
done
