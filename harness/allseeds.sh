#!/bin/sh
# usage: allseeds.sh [tier]  - run every seeded change through its property's check; prints one line per seed
cd "$(dirname "$0")/.." || exit 2
T=${1:-quick}
for d in seeded/C*; do
  P=$(jq -r .property $d/meta.json)
  TT=$(jq -r '.tier // empty' $d/meta.json); TT=${TT:-$T}       # a seed may name the tier that detects it (default: the one asked for)
  OUT=$(harness/seedtest.sh $PWD/$d $P $TT 2>&1 | tail -1)
  case "$OUT" in *rc=1*) echo "caught  $d";; *"DOES NOT APPLY"*) echo "STALE   $d (patch no longer applies)";; *) echo "MISSED  $d :: $OUT";; esac
done
for d in seeded/benign-*; do
  [ -f $d/patch.diff ] || continue
  for P in $(jq -r '.checked_against[]? // empty' $d/meta.json 2>/dev/null); do
    OUT=$(harness/seedtest.sh $PWD/$d $P $T 2>&1 | tail -1)
    case "$OUT" in *rc=0*) echo "quiet   $d $P";; *) echo "ALARM   $d $P :: $OUT";; esac
  done
done
