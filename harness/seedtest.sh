#!/bin/sh
# usage: seedtest.sh <worktree-or-seeded-dir> <Cxx> [tier]  - run a check against a mutated tree
# For a worktree dir: uses it directly. For /verif/seeded/<id>: applies patch.diff to a temp worktree of /repo HEAD.
D=$1; P=$2; T=${3:-quick}
if [ -f "$D/patch.diff" ] && [ ! -d "$D/boltons" ]; then
  W=$(mktemp -d /tmp/seedwt.XXXXXX); rmdir $W
  git -C /repo worktree add -q --detach $W HEAD || exit 2
  git -C $W apply "$D/patch.diff" 2>/dev/null || git -C $W apply --3way "$D/patch.diff" 2>/dev/null || { echo "PATCH DOES NOT APPLY"; git -C /repo worktree remove --force $W; exit 3; }
  VERIF_REPO=$W /verif/check $P --tier $T; RC=$?
  git -C /repo worktree remove --force $W
  exit $RC
fi
VERIF_REPO=$D /verif/check $P --tier $T
