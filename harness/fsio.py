"""Interposition on every route a Python implementation can take to the file system (C04, C05).

Inside `Interposer` the entry points of os / io / builtins are replaced by logging wrappers and the
file objects they return are proxied, so each file-system call and each write/flush/close on a file
object is one EVENT. After every event the scratch directory is inspected with the original
functions: what is on disk there is exactly what would survive if the process died at that instant
(user-space buffers are lost, the page cache is not).  A fault plan {event index: errno} makes the
k-th event raise OSError instead of doing anything.
"""
import builtins
import errno
import io
import os
import stat

OS_FUNCS = ["open", "fdopen", "chmod", "fchmod", "fsync", "fdatasync", "rename", "replace", "link", "unlink", "remove",
            "write", "truncate", "ftruncate", "symlink", "close"]
REAL = {n: getattr(os, n) for n in OS_FUNCS if hasattr(os, n)}
REAL_LSTAT, REAL_STAT = os.lstat, os.stat
REAL_IO_OPEN = io.open


class FileProxy:
    def __init__(self, ip, f, path):
        object.__setattr__(self, "_ip", ip)
        object.__setattr__(self, "_f", f)
        object.__setattr__(self, "_path", path)

    @staticmethod
    def _nbytes(data):
        return len(data.encode("utf-8")) if isinstance(data, str) else len(data)

    def write(self, data):
        return self._ip.event("write", self._path, lambda: self._f.write(data), n=self._nbytes(data))

    def writelines(self, lines):
        lines = list(lines)
        return self._ip.event("write", self._path, lambda: self._f.writelines(lines), n=sum(self._nbytes(x) for x in lines))

    def flush(self):
        return self._ip.event("flush", self._path, self._f.flush)

    def close(self):
        if self._f.closed:
            return self._f.close()
        return self._ip.event("close", self._path, self._f.close)

    def truncate(self, *a):
        return self._ip.event("truncate", self._path, lambda: self._f.truncate(*a))

    def __enter__(self):
        return self

    def __exit__(self, *a):
        self.close()

    def __getattr__(self, name):
        return getattr(self._f, name)

    def __setattr__(self, name, value):
        setattr(self._f, name, value)

    def __iter__(self):
        return iter(self._f)


class Interposer:
    def __init__(self, directory, classify, faults=None):
        self.dir = directory
        self.classify = classify          # () -> snapshot dict, uses original os functions
        self.faults = dict(faults or {})
        self.events = []
        self.fd_paths = {}
        self.active = False
        self.depth = 0
        self.kill_at = None      # (event index, "before" | "after"): SIGKILL this process there

    # ---- one event
    def event(self, name, target, thunk, n=0):
        if not self.active or self.depth:
            return thunk()
        idx = len(self.events)
        rec = {"name": name, "target": self.rel(target), "faulted": False, "n": n}
        self.events.append(rec)
        if self.kill_at and self.kill_at[0] == idx and self.kill_at[1] == "before":
            os.kill(os.getpid(), 9)
        self.depth += 1
        try:
            if idx in self.faults:
                rec["faulted"] = True
                raise OSError(self.faults[idx], os.strerror(self.faults[idx]))
            return thunk()
        finally:
            self.depth -= 1
            if self.kill_at and self.kill_at[0] == idx and self.kill_at[1] == "after":
                os.kill(os.getpid(), 9)
            snap = self.classify()
            rec["dest"], rec["part"] = snap["dest"], snap["part"]

    def rel(self, p):
        if isinstance(p, int):
            p = self.fd_paths.get(p, "fd")
        try:
            p = os.fspath(p)
        except TypeError:
            return "?"
        if isinstance(p, bytes):
            p = p.decode("utf-8", "replace")
        b = os.path.basename(p)
        return "dest" if b == "dest.txt" else "part" if b.startswith("dest.txt.part") else "other:" + b

    def inside(self, p):
        try:
            p = os.fspath(p)
            if isinstance(p, bytes):
                p = p.decode()
            ap = os.path.abspath(p)
            return ap.startswith(self.dir) or any(ap.startswith(x) for x in getattr(self, "more_dirs", ()))
        except TypeError:
            return isinstance(p, int) and p in self.fd_paths

    # ---- wrappers
    def w_open(self, path, flags, mode=0o777, *a, **kw):
        if not self.inside(path):
            return REAL["open"](path, flags, mode, *a, **kw)

        def do():
            fd = REAL["open"](path, flags, mode, *a, **kw)
            self.fd_paths[fd] = os.fspath(path)
            return fd
        return self.event("open", path, do)

    def w_fdopen(self, fd, *a, **kw):
        if fd not in self.fd_paths:
            return REAL["fdopen"](fd, *a, **kw)
        path = self.fd_paths[fd]
        f = self.event("fdopen", path, lambda: REAL["fdopen"](fd, *a, **kw))
        return FileProxy(self, f, path)

    def w_io_open(self, file, *a, **kw):
        if self.depth:
            return REAL_IO_OPEN(file, *a, **kw)
        if isinstance(file, int):
            if file in self.fd_paths:
                path = self.fd_paths[file]
                f = self.event("fdopen", path, lambda: REAL_IO_OPEN(file, *a, **kw))
                return FileProxy(self, f, path)
            return REAL_IO_OPEN(file, *a, **kw)
        if not self.inside(file):
            return REAL_IO_OPEN(file, *a, **kw)
        mode = a[0] if a else kw.get("mode", "r")
        if not any(c in mode for c in "wax+"):
            return REAL_IO_OPEN(file, *a, **kw)
        f = self.event("open", file, lambda: REAL_IO_OPEN(file, *a, **kw))
        return FileProxy(self, f, os.fspath(file))

    def simple(self, name, which=0):
        real = REAL[name]

        def w(*a, **kw):
            tgt = a[which] if len(a) > which else None
            if tgt is None or not (self.inside(tgt) or (len(a) > 1 and self.inside(a[1]))):
                return real(*a, **kw)
            label = a[1] if name in ("rename", "replace", "link") and len(a) > 1 else tgt
            return self.event(name, label, lambda: real(*a, **kw))
        return w

    def w_close(self, fd):
        if fd in self.fd_paths:
            p = self.fd_paths.pop(fd)
            return self.event("close", p, lambda: REAL["close"](fd))
        return REAL["close"](fd)

    def __enter__(self):
        self.saved = {}
        for n in OS_FUNCS:
            if n in REAL:
                self.saved[n] = getattr(os, n)
        os.open = self.w_open
        os.fdopen = self.w_fdopen
        os.close = self.w_close
        for n in ("chmod", "fchmod", "fsync", "fdatasync", "rename", "replace", "link", "unlink", "remove", "write",
                  "truncate", "ftruncate", "symlink"):
            if n in REAL:
                setattr(os, n, self.simple(n, 1 if n == "symlink" else 0))
        self.saved_io = (io.open, builtins.open)
        io.open = self.w_io_open
        builtins.open = self.w_io_open
        self.active = True
        return self

    def __exit__(self, *a):
        self.active = False
        for n, f in self.saved.items():
            setattr(os, n, f)
        io.open, builtins.open = self.saved_io
        return False
