"""Common machinery: run TLC, parse its PrintT payloads, findings, evidence, verdict lines.

Standard library only.  Exit codes: 0 property held / only known findings; 1 VIOLATION;
2 machinery failure (TLC crashed, canary not rejected, ...).
"""
import hashlib
import json
import os
import re
import shutil
import subprocess
import sys
import tempfile
import time
from concurrent.futures import ThreadPoolExecutor
from pathlib import Path

VERIF = Path(__file__).resolve().parent.parent
SPECS = VERIF / "specs"
REPO = Path(os.environ.get("VERIF_REPO", "/repo"))
TLA_JAR = "/opt/veriftools/tla/tla2tools.jar"
TLA_DEPS = "/opt/veriftools/tla/CommunityModules-deps.jar"
NCPU = os.cpu_count() or 4


class MachineryError(Exception):
    pass


def repo_on_path():
    """Import boltons from the working tree under test (never an installed copy)."""
    p = str(REPO)
    if p in sys.path:
        sys.path.remove(p)
    sys.path.insert(0, p)
    for m in [m for m in sys.modules if m == "boltons" or m.startswith("boltons.")]:
        del sys.modules[m]


# ---------------------------------------------------------------- TLC

class TLCResult:
    def __init__(self, out, rc, wall, cmd):
        self.out, self.rc, self.wall, self.cmd = out, rc, wall, cmd
        self.generated = self.distinct = 0
        m = None
        for m in re.finditer(r"(\d+) states generated, (\d+) distinct states found", out):
            pass
        if m:
            self.generated, self.distinct = int(m.group(1)), int(m.group(2))
        self.ok = ("Model checking completed. No error has been found." in out) or \
                  ("Finished in" in out and "Error:" not in out and rc == 0)
        self.invariant_violated = None
        m = re.search(r"Invariant (\S+) is violated", out)
        if m:
            self.invariant_violated = m.group(1)
        m = re.search(r"Action property (\S+) is violated", out)
        if m:
            self.invariant_violated = m.group(1)
        if "Temporal properties were violated" in out:
            self.invariant_violated = self.invariant_violated or "temporal"

    def payloads(self, tag):
        """All PrintT(<<tag, ToJson(x)>>) payloads, decoded."""
        pre = '<<"%s", ' % tag
        res = []
        for line in self.out.splitlines():
            if line.startswith(pre) and line.endswith(">>"):
                body = line[len(pre):-2]
                try:
                    res.append(json.loads(json.loads(body)))
                except Exception:
                    raise MachineryError("unparseable TLC payload: %r" % line[:200])
        return res

    def raw_tuples(self, tag):
        """PrintT(<<tag, a, b, ...>>) with int / string items -> list of lists."""
        pre = '<<"%s"' % tag
        res = []
        for line in self.out.splitlines():
            if line.startswith(pre) and line.endswith(">>"):
                try:
                    res.append(json.loads("[" + line[2:-2] + "]"))
                except Exception:
                    raise MachineryError("unparseable TLC tuple: %r" % line[:200])
        return res

    def coverage_zero(self):
        """Names of actions reported with 0 count by -coverage."""
        zero = []
        for m in re.finditer(r"<(\w+) line \d+, col \d+ to line \d+, col \d+ of module (\w+)>: (\d+):(\d+)", self.out):
            if m.group(3) == "0" and m.group(4) == "0":
                zero.append(m.group(1))
        return zero


def tlc(spec_dir, module, cfg=None, *, workers=1, env=None, timeout=900, simulate=None,
        depth=None, coverage=False, seed=None, deadlock=False, extra=(), dfs=False, heap="4g"):
    spec_dir = Path(spec_dir)
    meta = tempfile.mkdtemp(prefix="tlcmeta-")
    cmd = ["java", "-XX:+UseParallelGC", "-Xmx" + heap, "-Xss128m"]
    if dfs:
        cmd.append("-Dtlc2.tool.queue.IStateQueue=StateDeque")
    cmd += ["-cp", TLA_JAR + ":" + TLA_DEPS + ":" + str(SPECS / "lib"), "tlc2.TLC",
            "-workers", str(workers), "-metadir", meta, "-noGenerateSpecTE"]
    if cfg:
        cmd += ["-config", str(cfg)]
    if simulate:
        cmd += ["-simulate", simulate]
    if depth:
        cmd += ["-depth", str(depth)]
    if coverage:
        cmd += ["-coverage", "1"]
    if seed is not None:
        cmd += ["-seed", str(seed)]
    if not deadlock:
        cmd += ["-deadlock"]
    cmd += list(extra) + [module]
    e = dict(os.environ)
    e.pop("JAVA_TOOL_OPTIONS", None)
    if env:
        e.update({k: str(v) for k, v in env.items()})
    t0 = time.time()
    try:
        p = subprocess.run(cmd, cwd=str(spec_dir), env=e, stdout=subprocess.PIPE,
                           stderr=subprocess.STDOUT, timeout=timeout, text=True,
                           errors="replace")
        out, rc = p.stdout, p.returncode
    except subprocess.TimeoutExpired as ex:
        out = (ex.stdout or b"")
        if isinstance(out, bytes):
            out = out.decode("utf-8", "replace")
        out += "\nTLC-TIMEOUT"
        rc = -9
    finally:
        shutil.rmtree(meta, ignore_errors=True)
    return TLCResult(out, rc, time.time() - t0, " ".join(cmd[cmd.index("tlc2.TLC"):]))


def tlc_must_pass(*a, **kw):
    r = tlc(*a, **kw)
    if not r.ok or r.invariant_violated:
        tail = "\n".join(r.out.splitlines()[-40:])
        raise MachineryError("TLC did not complete cleanly (%s):\n%s" % (r.cmd, tail))
    return r


def parallel(fn, items, n=None):
    with ThreadPoolExecutor(max_workers=n or NCPU) as ex:
        return list(ex.map(fn, items))


# ---------------------------------------------------------------- graph

def canon(x):
    return json.dumps(x, sort_keys=True, separators=(",", ":"))


class Graph:
    """State graph exported by an *MC spec through PrintT payloads.

    "I": initial states (list of state values); "S": {s, obs}; "E": {f, op, o, t} where
    `o` is the outcome record (result, deltas, ...) the specification predicts.
    Outcomes of the same (f, op) are alternatives (set-valued specification).
    """

    def __init__(self, res):
        self.obs = {}
        self.states = {}
        for s in res.payloads("S"):
            k = canon(s["s"])
            self.states[k] = s["s"]
            self.obs[k] = s.get("obs")
        self.groups = {}      # (fkey, opkey) -> list of (o, tkey)
        self.out = {}         # fkey -> list of (opkey)
        self.ops = {}
        self.n_edges = 0
        for e in res.payloads("E"):
            fk, tk, ok = canon(e["f"]), canon(e["t"]), canon(e["op"])
            self.ops[ok] = e["op"]
            g = self.groups.setdefault((fk, ok), [])
            if not any(canon(o) == canon(e["o"]) and t == tk for o, t in g):
                g.append((e["o"], tk))
            self.n_edges += 1
        for (fk, ok) in self.groups:
            self.out.setdefault(fk, []).append(ok)
        self.inits = [canon(s) for s in res.payloads("I")]
        if not self.inits:
            raise MachineryError("graph export has no initial state")
        self._paths()

    def _paths(self):
        """Shortest op paths from an initial state, preferring deterministic edges."""
        self.path = {k: (k, []) for k in self.inits}     # state -> (init, [(opkey, o, tkey)])
        frontier = list(self.inits)
        while frontier:
            nxt = []
            for fk in frontier:
                for ok in self.out.get(fk, []):
                    outs = self.groups[(fk, ok)]
                    if len(outs) != 1:
                        continue
                    o, tk = outs[0]
                    if tk not in self.path:
                        i, p = self.path[fk]
                        self.path[tk] = (i, p + [(ok, o, tk)])
                        nxt.append(tk)
            frontier = nxt
        # states reachable only through set-valued edges
        changed = True
        while changed:
            changed = False
            for (fk, ok), outs in self.groups.items():
                if fk in self.path:
                    for o, tk in outs:
                        if tk not in self.path:
                            i, p = self.path[fk]
                            self.path[tk] = (i, p + [(ok, o, tk)])
                            changed = True


# ---------------------------------------------------------------- findings / verdicts

class Findings:
    def __init__(self, prop):
        self.prop = prop
        f = VERIF / "known_findings.json"
        self.entries = []
        if f.exists():
            data = json.loads(f.read_text())
            self.entries = [e for e in data.get("findings", []) if e.get("property") == prop
                            and e.get("status", "open") == "open"]
        self.hit = {}

    def explain(self, sig):
        """Return the finding whose `match` dict is a subset of the failure signature."""
        for e in self.entries:
            m = e.get("match", {})
            if m and all(canon(sig.get(k)) == canon(v) for k, v in m.items()):
                self.hit.setdefault(e["id"], e)
                return e
        return None


def plain(x, depth=0):
    """x with everything that is not plain data replaced by its repr"""
    if x is None or isinstance(x, (bool, int, float, str)):
        return x
    if depth > 12:
        return "..."
    if type(x) is dict:
        return {(k if isinstance(k, (str, int, float, bool)) or k is None else repr(k)): plain(v, depth + 1) for k, v in x.items()}
    if type(x) in (list, tuple):
        return [plain(v, depth + 1) for v in x]
    if isinstance(x, bytes):
        return "bytes:" + x.hex()
    try:
        return "object:" + repr(x)[:200]
    except Exception:
        return "object:" + type(x).__name__


class Verdict:
    """Collects failures of one check run, prints the interface lines, writes replays."""

    def __init__(self, prop, tier, seed):
        self.prop, self.tier, self.seed = prop, tier, seed
        self.findings = Findings(prop)
        self.violations = []
        self.known = 0
        self.classes = {}
        self.raw = []
        self.collect_all = False

    def fail(self, sig, case):
        """sig: small dict identifying the failure class; case: full replayable description."""
        ck = canon(sig)
        case = plain(case)          # only data travels between processes and into replay files, never live objects
        if self.collect_all:
            if self.classes.get(ck, 0) < 3:
                self.raw.append((sig, case))
            self.classes[ck] = self.classes.get(ck, 0) + 1
            return
        self.classes[ck] = self.classes.get(ck, 0) + 1
        if self.findings.explain(sig):
            self.known += 1
            return
        if self.classes[ck] > 1 and len(self.violations) >= 3:
            return
        if len(self.violations) < 25:
            self.violations.append((sig, case))

    def finish(self):
        for fid, e in self.findings.hit.items():
            print("KNOWN-FINDING: property=%s %s: %s" % (self.prop, fid, e.get("what", "")))
        if self.tier not in ("canary", "par"):
            _REPRODUCED[self.prop] = {"ids": sorted(self.findings.hit), "failing_cases_explained": self.known}
        if not self.violations:
            return 0
        (VERIF / "replays").mkdir(exist_ok=True)
        seen = set()
        for sig, case in self.violations:
            ck = canon(sig)
            if ck in seen:
                continue
            seen.add(ck)
            h = hashlib.sha1(canon([sig, case]).encode()).hexdigest()[:10]
            path = VERIF / "replays" / ("%s-%s.json" % (self.prop, h))
            path.write_text(json.dumps({"property": self.prop, "tier": self.tier, "seed": self.seed,
                                        "signature": sig, "case": case,
                                        "occurrences_of_class": self.classes[ck]},
                                       indent=1, default=str))
            print("VIOLATION property=%s replay=%s" % (self.prop, path))
            print("  class: %s" % ck[:300])
        return 1


_REPRODUCED = {}


def write_evidence(prop, tier, seed, coverage, assumptions, wall, violations, level="model_checking"):
    if _REPRODUCED.get(prop, {}).get("ids"):
        coverage = dict(coverage, known_findings_reproduced_this_run=_REPRODUCED[prop])
    ev = {"property_id": prop, "tier": tier, "seed": seed, "level": level,
          "coverage": coverage, "assumptions": assumptions, "wall_s": round(wall, 2),
          "violations": violations}
    d = VERIF / "evidence"
    d.mkdir(exist_ok=True)
    (d / (prop + ".json")).write_text(json.dumps(ev, indent=1, default=str))


class Stats:
    """Accumulates measured coverage numbers across TLC runs and replays."""

    def __init__(self):
        self.states = 0
        self.transitions = 0
        self.cmds = []
        self.edges_executed = 0
        self.traces_accepted = 0
        self.trace_events = 0
        self.nontrivial = set()
        self.samples = []
        self.extra = {}

    def add_tlc(self, r):
        self.states += r.distinct
        self.transitions += r.generated
        self.cmds.append("%s  [%d generated / %d distinct, %.1fs]" % (r.cmd, r.generated, r.distinct, r.wall))

    def sample(self, x, cap=6):
        if len(self.samples) < cap:
            if isinstance(x, dict) and isinstance(x.get("observed"), dict):
                x = dict(x, observed={k_: v_ for k_, v_ in x["observed"].items() if k_ != "twin"})
            self.samples.append(plain(x))

    def coverage(self, rule, exhaustive):
        c = {"states": max(self.states, 0), "transitions": max(self.transitions, 0),
             "traces_validated_against_impl": self.edges_executed + self.traces_accepted,
             "graph_edges_executed_on_impl": self.edges_executed,
             "impl_traces_accepted_by_tlc": self.traces_accepted,
             "impl_trace_events": self.trace_events,
             "evaluations": self.edges_executed + self.trace_events,
             "distinct_nontrivial": len(self.nontrivial),
             "rule": rule, "samples": self.samples, "exhaustive": exhaustive,
             "checker_cmd": " ;; ".join(self.cmds)}
        c.update(self.extra)
        return c


# ---------------------------------------------------------------- graph replay (spec -> code)

import signal


class Hang(Exception):
    pass


def _alarm(signum, frame):
    raise Hang()


def with_timeout(fn, seconds=10.0):
    old = signal.signal(signal.SIGALRM, _alarm)
    signal.setitimer(signal.ITIMER_REAL, seconds)
    try:
        return fn()
    finally:
        signal.setitimer(signal.ITIMER_REAL, 0)
        signal.signal(signal.SIGALRM, old)


def exc_name(ex):
    return type(ex).__name__


def replay_graph(graph, adapter, verdict, stats, only=None, sample_every=997, part=None):
    """Execute every (source state, op[, variant]) group of the exported graph on the
    implementation, from a fresh object along a shortest path, and compare the result
    and all observations with what the specification predicts.

    adapter: .subject, .variants(op), .fresh(state), .step(obj, op, variant) -> (obj, observed),
             .match(observed, predicted_outcome) -> None | str,
             .observe(obj, observed) -> dict,  .compare(obs, predicted_obs, state) -> None | str
    """
    n = 0
    gi = -1
    for (fk, ok), outs in graph.groups.items():
        op = graph.ops[ok]
        gi += 1
        if part and gi % part[1] != part[0]:
            continue
        if only and not only(op):
            continue
        if fk not in graph.path:
            continue
        init, path = graph.path[fk]
        adapter.cur_f_obs = graph.obs.get(fk)
        for variant in adapter.variants(op):
            n += 1

            def run():
                obj = adapter.fresh(graph.states[init])
                for (pok, po, ptk) in path:
                    obj, got = adapter.step(obj, graph.ops[pok], None)
                    if adapter.match(got, po) is not None:
                        return ("prefix", None, None)
                obj, got = adapter.step(obj, op, variant)
                obs = adapter.observe(obj, got)
                return ("done", got, obs)
            try:
                status, got, obs = with_timeout(run)
            except Hang:
                status, got, obs = "done", {"r": {"e": "timeout", "v": []}}, {}
            except Exception as ex:          # an exception outside the operation proper
                status, got, obs = "done", {"r": {"e": "harness-saw:" + exc_name(ex), "v": [repr(ex)[:200]]}}, {}
            if status == "prefix":
                stats.extra["groups_skipped_prefix_deviates"] = stats.extra.get("groups_skipped_prefix_deviates", 0) + 1
                continue
            stats.edges_executed += 1
            why = None
            for (o, tk) in outs:
                w = adapter.match(got, o)
                if w is None:
                    w = adapter.compare(obs, graph.obs[tk], graph.states[tk])
                if w is None:
                    why = None
                    if tk != fk or o.get("r", {}).get("e") != "ok":
                        stats.nontrivial.add((fk, ok))
                    break
                why = why or w
            else:
                sig = {"subject": adapter.subject, "op": op.get("op"), "variant": variant, "what": why}
                sig.update(adapter.signature(graph.states[fk], op, variant, got, obs, outs) or {})
                verdict.fail(sig, {"concretisation": adapter.name, "init": graph.states[init],
                                   "path": [graph.ops[p[0]] for p in path], "op": op, "variant": variant,
                                   "source_state": graph.states[fk],
                                   "expected": [{"outcome": o, "obs": graph.obs[tk]} for o, tk in outs][:4],
                                   "observed": {"outcome": {k_: v_ for k_, v_ in got.items() if k_ != "twin"}, "obs": obs}})
            if n % sample_every == 1:
                stats.sample({"from": graph.states[fk], "op": op, "variant": variant,
                              "predicted": outs[0][0], "observed": got}, cap=5)
    return n


# ---------------------------------------------------------------- generic adapter / trace validation

def first_diff(a, b, prefix=""):
    """Name of the first field in which two JSON values differ (None if equal)."""
    if isinstance(a, dict) and isinstance(b, dict):
        for k in sorted(set(a) | set(b)):
            if k not in a or k not in b:
                return prefix + k
            d = first_diff(a[k], b[k], prefix + k + ".")
            if d:
                return d
        return None
    return None if a == b else (prefix.rstrip(".") or "value")


class GenericAdapter:
    """Adapter whose observe() returns exactly the JSON shape of the specification's Obs.

    step() returns (obj, got) with got = {"r": result, ["also_t": [obs...], "also_f": [obs...]]}:
    also_t observations must equal the predicted observations of the target state,
    also_f those of the source state (e.g. the source of a copy, re-read after the copy
    was mutated)."""
    subject = "?"
    name = "?"

    def variants(self, op):
        return [None]

    def match(self, got, pred):
        return None if got["r"] == pred["r"] else "result"

    def compare(self, obs, pobs, st):
        if isinstance(obs, dict) and "raised" in obs:
            return "reads-raised:" + str(obs["raised"])
        return first_diff(obs, pobs)

    def signature(self, st, op, variant, got, obs, outs):
        return {}


_PAR = {}


def _par_worker(i):
    graph, adapter, only, nproc, generic = _PAR["args"]
    v = Verdict("par", "par", 0)
    v.findings.entries = []
    v.collect_all = True
    s = Stats()
    try:
        if generic:
            replay_graph_generic(graph, adapter, v, s, only=only, part=(i, nproc), _serial=True)
        else:
            replay_graph(graph, adapter, v, s, only=only, part=(i, nproc))
    except MachineryError as ex:
        return ("machinery", str(ex))
    return ("ok", v.raw, s.edges_executed, s.nontrivial, s.samples, s.extra)


def replay_parallel(graph, adapter, verdict, stats, only=None, generic=True, nproc=None):
    """Fork workers; each replays every nproc-th group. Failures are merged into `verdict`."""
    import multiprocessing as mp
    nproc = nproc or NCPU
    _PAR["args"] = (graph, adapter, only, nproc, generic)
    with mp.get_context("fork").Pool(nproc) as pool:
        res = pool.map(_par_worker, range(nproc))
    for r in res:
        if r[0] == "machinery":
            raise MachineryError(r[1])
        _, raw, edges, nontriv, samples, extra = r
        for sig, case in raw:
            verdict.fail(sig, case)
        stats.edges_executed += edges
        stats.nontrivial |= nontriv
        for x in samples:
            stats.sample(x, cap=5)
        for k, val in extra.items():
            if isinstance(val, int):
                stats.extra[k] = stats.extra.get(k, 0) + val


def replay_graph_generic(graph, adapter, verdict, stats, only=None, part=None, _serial=False):
    """Like replay_graph, with also_t / also_f handling. Runs in parallel worker processes
    unless called from one."""
    if not _serial and part is None and len(graph.groups) > 2000:
        return replay_parallel(graph, adapter, verdict, stats, only=only, generic=True)
    base_match = adapter.match

    class Wrap:
        pass
    # source-state observations are checked inside match via a closure over the graph
    cur = {}

    def match(got, pred):
        w = base_match(got, pred)
        if w:
            return w
        for i, o in enumerate(got.get("also_t", [])):
            d = first_diff(o, graph.obs[canon(pred["s"])])
            if d:
                return "also_t[%d].%s" % (i, d)
        for i, o in enumerate(got.get("also_f", [])):
            d = first_diff(o, adapter.cur_f_obs)
            if d:
                return "also_f[%d].%s" % (i, d)
        return None
    adapter.match = match
    try:
        return replay_graph(graph, adapter, verdict, stats, only=only, part=part)
    finally:
        adapter.match = base_match


def validate_traces_generic(specdir, module, cfg, traces, stats, verdict, subject, env=None, shards=None,
                            sig_extra=None):
    """traces: list of {"init":..., "ev": [{"op", "r", "obs", ...}], ...}. The TLA+ trace module
    prints ACCEPT tid or a REJECT payload {tid, l, st, exp}."""
    if not traces:
        return 0
    shards = shards or min(NCPU, max(1, len(traces) // 40))
    parts = [traces[i::shards] for i in range(shards)]
    tmp = tempfile.mkdtemp(prefix="vtr-")

    def run(i):
        f = os.path.join(tmp, "t%d.json" % i)
        with open(f, "w") as fh:
            json.dump(parts[i], fh)
        e = {"TRACE_FILE": f}
        e.update(env or {})
        return tlc(specdir, module, cfg, workers=1, env=e, timeout=3000)
    try:
        results = parallel(run, range(shards))
    finally:
        shutil.rmtree(tmp, ignore_errors=True)
    accepted = 0
    for i, r in enumerate(results):
        if not r.ok:
            raise MachineryError("%s TLC run failed:\n%s" % (module, "\n".join(r.out.splitlines()[-30:])))
        stats.add_tlc(r)
        acc = {a[1] for a in r.raw_tuples("ACCEPT")}
        rej = {}
        for p in r.payloads("REJECT"):
            rej.setdefault(p["tid"], p)
        notes = {}
        for p in r.payloads("NOTE"):
            notes.setdefault((p["tid"], p.get("what"), json.dumps({k: v for k, v in p.items() if k not in ("tid", "l", "len", "mechanism_len")}, sort_keys=True)), p)
        for (j, what, _), p in sorted(notes.items(), key=lambda kv: (kv[0][0], kv[1]["l"])):
            tr = parts[i][j - 1]
            ev = tr["ev"][p["l"] - 1]
            opf = ev.get("op") if isinstance(ev.get("op"), dict) else {}
            sig = {"subject": subject, "op": opf.get("op"), "variant": ev.get("variant") or None, "what": what}
            sig.update({k: v for k, v in p.items() if k not in ("tid", "l", "what", "len", "mechanism_len")})
            verdict.fail(sig, {"trace_meta": {k: v for k, v in tr.items() if k != "ev"}, "noted_at_event": p["l"], "note": p, "event": ev,
                               "history": [dict(e["op"], _variant=e.get("variant")) if isinstance(e.get("op"), dict) else e.get("call", e.get("op"))
                                           for e in tr["ev"][:p["l"]]]})
        for j, tr in enumerate(parts[i], 1):
            stats.trace_events += len(tr["ev"])
            if j in acc:
                accepted += 1
                continue
            p = rej.get(j)
            if p is None:
                raise MachineryError("trace %d of shard %d has neither ACCEPT nor REJECT" % (j, i))
            ev = tr["ev"][min(p["l"], len(tr["ev"])) - 1] if tr["ev"] else {}
            exp = p.get("exp")
            what = "trace-rejected"
            if isinstance(exp, list) and exp and isinstance(exp[0], dict) and "r" in exp[0]:
                if all(e_["r"] != ev.get("r") for e_ in exp):
                    what = "result"
                elif "obs" in exp[0]:
                    what = first_diff(ev.get("obs"), exp[0]["obs"]) or "trace-rejected"
            opf = ev.get("op") if isinstance(ev.get("op"), dict) else {}
            sig = {"subject": subject, "op": opf.get("op"), "variant": ev.get("variant") or None, "what": what}
            if sig_extra:
                try:
                    sig.update(sig_extra(tr, ev, p) or {})
                except TypeError:
                    sig.update(sig_extra(tr, ev) or {})
            verdict.fail(sig, {"trace_meta": {k: v for k, v in tr.items() if k != "ev"}, "rejected_at_event": p["l"],
                               "event": ev, "spec_state_before": p.get("st"), "spec_expected": exp,
                               "history": [dict(e["op"], _variant=e.get("variant")) if isinstance(e.get("op"), dict) else e.get("call", e.get("op"))
                                           for e in tr["ev"][:p["l"]]]})
    stats.traces_accepted += accepted
    return accepted


# ---------------------------------------------------------------- spec-guided random walks

import random as _random


def _walk_worker(i):
    graph, adapter, n_walks, length, seed, nproc = _PAR["walk"]
    v = Verdict("par", "par", 0)
    v.findings.entries = []
    v.collect_all = True
    s = Stats()
    rng = _random.Random(seed * 1000003 + i)
    adapter_match = adapter.match
    for w in range(i, n_walks, nproc):
        cur = rng.choice(graph.inits)
        hist = []

        twins = []

        def run():
            nonlocal cur
            obj = adapter.fresh(graph.states[cur])
            for _ in range(length):
                oks = graph.out.get(cur)
                if not oks:
                    return
                ok = rng.choice(oks)
                op = graph.ops[ok]
                vs = adapter.variants(op)
                if not vs:
                    continue
                variant = rng.choice(vs)
                outs = graph.groups[(cur, ok)]
                adapter.cur_f_obs = graph.obs.get(cur)
                obj, got = adapter.step(obj, op, variant)
                obs = adapter.observe(obj, got)
                s.edges_executed += 1
                hist.append(dict(op, _variant=variant))
                why = None
                nxt = None
                for (o, tk) in outs:
                    w_ = adapter_match(got, o)
                    if w_ is None:
                        for j, ob in enumerate(got.get("also_t", [])):
                            d = first_diff(ob, graph.obs[tk])
                            if d:
                                w_ = "also_t[%d].%s" % (j, d)
                                break
                    if w_ is None:
                        for j, ob in enumerate(got.get("also_f", [])):
                            d = first_diff(ob, graph.obs[cur])
                            if d:
                                w_ = "also_f[%d].%s" % (j, d)
                                break
                    if w_ is None:
                        w_ = adapter.compare(obs, graph.obs[tk], graph.states[tk])
                    if w_ is None:
                        nxt = tk
                        break
                    why = why or w_
                if nxt is None:
                    sig = {"subject": adapter.subject, "op": op.get("op"), "variant": variant, "what": why, "mode": "walk"}
                    sig.update(adapter.signature(graph.states[cur], op, variant, got, obs, outs) or {})
                    v.fail(sig, {"concretisation": adapter.name, "walk_history": list(hist), "source_state": graph.states[cur],
                                 "expected": [{"outcome": o, "obs": graph.obs[tk]} for o, tk in outs][:3],
                                 "observed": {"outcome": {k_: v_ for k_, v_ in got.items() if k_ != "twin"}, "obs": obs}})
                    return
                # a second object left behind by this step (a copy, or the source when the walk goes on with the copy)
                # must keep reading as the state it was made in, whatever happens to the other one
                for tw, tstate, born in twins:
                    tobs = adapter.observe(tw, None)
                    w_ = adapter.compare(tobs, graph.obs[tstate], graph.states[tstate])
                    if w_ is not None:
                        v.fail({"subject": adapter.subject, "op": op.get("op"), "variant": variant, "what": "second-object:" + str(w_), "mode": "walk"},
                               {"concretisation": adapter.name, "walk_history": list(hist), "second_object_made_at_step": born,
                                "second_object_expected": graph.obs[tstate], "second_object_observed": tobs})
                        return
                if got.get("twin") is not None:
                    twins.append((got["twin"], nxt, len(hist)))
                    del twins[:-2]
                cur = nxt
        try:
            with_timeout(run, 30.0)
        except Hang:
            v.fail({"subject": adapter.subject, "op": hist[-1].get("op") if hist else None, "what": "timeout", "mode": "walk"},
                   {"walk_history": list(hist)})
        except MachineryError as ex:
            return ("machinery", str(ex))
    return ("ok", v.raw, s.edges_executed, set(), [], {})


def replay_walks(graph, adapter, verdict, stats, n_walks=400, length=25, seed=0, nproc=None):
    """Random walks through the exported graph executed on ONE object per walk, checking the
    result and all observations after every step: histories that revisit abstract states,
    which fresh-object shortest-path replay cannot reach (hidden implementation state)."""
    import multiprocessing as mp
    nproc = nproc or NCPU
    _PAR["walk"] = (graph, adapter, n_walks, length, seed, nproc)
    with mp.get_context("fork").Pool(nproc) as pool:
        res = pool.map(_walk_worker, range(nproc))
    total = 0
    for r in res:
        if r[0] == "machinery":
            raise MachineryError(r[1])
        for sig, case in r[1]:
            verdict.fail(sig, case)
        total += r[2]
    stats.edges_executed += total
    stats.extra["walk_steps_executed"] = stats.extra.get("walk_steps_executed", 0) + total
    stats.extra["walks"] = stats.extra.get("walks", 0) + n_walks
    return total
