"""Deterministic scheduling of real threads at bytecode granularity (C03).

Only one thread is runnable at a time. Worker threads run under sys.settrace with
f_trace_opcodes on every frame whose code lives in the module under test and hand control
back to the scheduler before EVERY bytecode there. The module's lock class is replaced by a
cooperative re-entrant lock, so a thread that would block is marked blocked instead of
blocking the OS thread. A schedule is a `plan`: {global step index -> thread to run next};
everywhere else the current thread keeps running (no pre-emption) and, when it finishes or
blocks, the lowest-numbered runnable thread continues.
"""
import dis
import sys
import threading

# Bytecodes that touch only the running thread's own frame (locals, stack, jumps, constants). A
# pre-emption immediately before one of them is equivalent to a pre-emption before the next
# bytecode, so the explorer does not branch there (the scheduler still yields at every bytecode).
LOCAL_OPS = {"LOAD_FAST", "LOAD_FAST_CHECK", "LOAD_FAST_AND_CLEAR", "STORE_FAST", "LOAD_CONST", "POP_TOP", "COPY",
             "SWAP", "RESUME", "NOP", "PUSH_NULL", "JUMP_FORWARD", "JUMP_BACKWARD", "JUMP_BACKWARD_NO_INTERRUPT",
             "POP_JUMP_IF_TRUE", "POP_JUMP_IF_FALSE", "POP_JUMP_IF_NONE", "POP_JUMP_IF_NOT_NONE", "RETURN_CONST",
             "IS_OP", "LOAD_GLOBAL", "KW_NAMES", "CACHE", "MAKE_CELL", "COPY_FREE_VARS", "EXTENDED_ARG",
             "BUILD_LIST", "BUILD_TUPLE", "LOAD_DEREF", "LOAD_CLOSURE", "POP_EXCEPT", "PUSH_EXC_INFO", "RERAISE",
             "CHECK_EXC_MATCH", "RETURN_VALUE", "UNPACK_SEQUENCE", "LOAD_SUPER_ATTR"}

MAX_STEPS = 40000


class Abort(BaseException):
    pass


class CoopRLock:
    """Drop-in for threading.RLock inside the module under test."""
    sched = None        # set per execution

    def __init__(self):
        self.owner = None
        self.count = 0

    def acquire(self, blocking=True, timeout=-1):
        me = threading.get_ident()
        s = CoopRLock.sched
        while True:
            if self.owner is None or self.owner == me:
                self.owner = me
                self.count += 1
                return True
            if s is None or me not in s.by_ident:
                raise RuntimeError("lock contended outside the scheduler")
            s.block_on(self)

    def release(self):
        if self.owner != threading.get_ident():
            raise RuntimeError("cannot release un-acquired lock")
        self.count -= 1
        if self.count == 0:
            self.owner = None

    __enter__ = acquire

    def __exit__(self, *a):
        self.release()


class Worker:
    def __init__(self, idx, fn):
        self.idx = idx
        self.fn = fn
        self.go = threading.Semaphore(0)
        self.status = "ready"        # ready | blocked | done
        self.waiting_for = None
        self.thread = None
        self.error = None
        self.next_op = None


class Scheduler:
    def __init__(self, target_file, fns, plan):
        self.target_file = target_file
        self.workers = [Worker(i, f) for i, f in enumerate(fns)]
        self.plan = dict(plan)
        self.back = threading.Semaphore(0)
        self.by_ident = {}
        self.step = 0
        self.trace_choices = []     # (step, running thread, runnable threads) at every scheduling decision
        self.preemptions = 0
        self.aborting = False
        self.outcome = "ok"

    # ---- called from worker threads
    def _tracer(self, frame, event, arg):
        if frame.f_code.co_filename == self.target_file:
            frame.f_trace_opcodes = True
            return self._local
        return None

    def _local(self, frame, event, arg):
        if event == "opcode":
            self.yield_point(dis.opname[frame.f_code.co_code[frame.f_lasti]])
        return self._local

    def yield_point(self, opname=None):
        w = self.by_ident.get(threading.get_ident())
        if w is None:
            return
        w.next_op = opname
        self.back.release()
        w.go.acquire()
        if self.aborting:
            raise Abort()

    def block_on(self, lock):
        w = self.by_ident[threading.get_ident()]
        w.status, w.waiting_for = "blocked", lock
        self.back.release()
        w.go.acquire()
        if self.aborting:
            raise Abort()
        w.status, w.waiting_for = "ready", None

    def _run_worker(self, w):
        self.by_ident[threading.get_ident()] = w
        w.go.acquire()
        if not self.aborting:
            sys.settrace(self._tracer)
            try:
                w.fn()
            except Abort:
                pass
            except BaseException as ex:      # the program wrapper catches per-op exceptions itself
                w.error = ex
            finally:
                sys.settrace(None)
        w.status = "done"
        self.back.release()

    # ---- scheduler (main thread)
    def runnable(self):
        out = []
        for w in self.workers:
            if w.status == "ready":
                out.append(w.idx)
            elif w.status == "blocked" and (w.waiting_for.owner is None):
                out.append(w.idx)
        return out

    def run(self, first=0):
        CoopRLock.sched = self
        for w in self.workers:
            w.thread = threading.Thread(target=self._run_worker, args=(w,), daemon=True)
            w.thread.start()
        cur = first
        try:
            while True:
                r = self.runnable()
                if not r:
                    if all(w.status == "done" for w in self.workers):
                        break
                    self.outcome = "deadlock"
                    break
                want = self.plan.get(self.step)
                if want is not None and want in r:
                    if cur in r and want != cur:
                        self.preemptions += 1
                    nxt = want
                elif cur in r:
                    nxt = cur
                else:
                    nxt = r[0]
                branch = cur in r and self.workers[cur].next_op not in LOCAL_OPS
                # forced: the running thread finished or blocked - whoever goes on, no pre-emption is spent
                self.trace_choices.append((self.step, cur if branch else -1, tuple(r), cur not in r))
                cur = nxt
                self.step += 1
                if self.step > MAX_STEPS:
                    self.outcome = "livelock"
                    break
                self.workers[cur].go.release()
                if not self.back.acquire(timeout=20):
                    self.outcome = "stuck"
                    break
        finally:
            if self.outcome != "ok":
                self.aborting = True
                for w in self.workers:
                    if w.status != "done":
                        w.go.release()
            for w in self.workers:
                w.thread.join(timeout=2)
            CoopRLock.sched = None
        return self.outcome
