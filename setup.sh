#!/bin/sh
# Nothing to build: specs are interpreted by TLC, harness is plain Python. Verify the tools exist.
set -e
cd "$(dirname "$0")"
test -f /opt/veriftools/tla/tla2tools.jar
java -version >/dev/null 2>&1
/venv/bin/python -c "import json, sys; json.load(open('MANIFEST.json'))"
mkdir -p evidence replays
echo setup ok
