----------------------------------- MODULE Uri -----------------------------------
(***************************************************************************)
(* RFC 3986 syntax for judging rendered URLs (C06).                        *)
(* Text = sequence of code points.  Contents:                              *)
(*  - Utf8(cps): UTF-8 encoding by integer arithmetic                      *)
(*  - PctBytes(text): the bytes a component text denotes (every well-      *)
(*    formed percent-XX decoded, everything else taken as is)                     *)
(*  - Split(text): the generic splitter of RFC 3986 Appendix B plus        *)
(*    authority -> userinfo / host / port, path -> segments, query ->      *)
(*    pairs on "&" ("+" is a blank in form-urlencoded data)                *)
(*  - Legal*(text): each character is allowed where the splitter puts it   *)
(*    and every percent sign starts a percent-XX escape                                    *)
(***************************************************************************)
EXTENDS Naturals, Integers, Sequences, FiniteSets, SequencesExt

RECURSIVE Utf8(_)
Utf8One(c) == IF c < 128 THEN <<c>>
              ELSE IF c < 2048 THEN <<192 + (c \div 64), 128 + (c % 64)>>
              ELSE IF c < 65536 THEN <<224 + (c \div 4096), 128 + ((c \div 64) % 64), 128 + (c % 64)>>
              ELSE <<240 + (c \div 262144), 128 + ((c \div 4096) % 64), 128 + ((c \div 64) % 64), 128 + (c % 64)>>
Utf8(s) == IF s = <<>> THEN <<>> ELSE Utf8One(Head(s)) \o Utf8(Tail(s))

IsHex(c) == (c >= 48 /\ c <= 57) \/ (c >= 65 /\ c <= 70) \/ (c >= 97 /\ c <= 102)
HexVal(c) == IF c <= 57 THEN c - 48 ELSE IF c <= 70 THEN c - 55 ELSE c - 87
RECURSIVE PctBytes(_)
PctBytes(t) == IF t = <<>> THEN <<>>
               ELSE IF Head(t) = 37 /\ Len(t) >= 3 /\ IsHex(t[2]) /\ IsHex(t[3])
                    THEN <<16 * HexVal(t[2]) + HexVal(t[3])>> \o PctBytes(SubSeq(t, 4, Len(t)))
               ELSE Utf8One(Head(t)) \o PctBytes(Tail(t))
PlusToSpace(t) == [i \in 1..Len(t) |-> IF t[i] = 43 THEN 32 ELSE t[i]]

(* ---- character classes ---- *)
Alpha(c) == (c >= 65 /\ c <= 90) \/ (c >= 97 /\ c <= 122)
Digit(c) == c >= 48 /\ c <= 57
Unreserved(c) == Alpha(c) \/ Digit(c) \/ c \in {45, 46, 95, 126}
SubDelim(c) == c \in {33, 36, 38, 39, 40, 41, 42, 43, 44, 59, 61}
PctOK(t) == \A i \in 1..Len(t) : t[i] = 37 => (i + 2 <= Len(t) /\ IsHex(t[i + 1]) /\ IsHex(t[i + 2]))
LegalIn(t, extra) == PctOK(t) /\ \A i \in 1..Len(t) : Unreserved(t[i]) \/ SubDelim(t[i]) \/ t[i] = 37 \/ t[i] \in extra
LegalUserinfo(t) == LegalIn(t, {58})
LegalSegment(t) == LegalIn(t, {58, 64})
LegalQuery(t) == LegalIn(t, {58, 64, 47, 63})
LegalFragment(t) == LegalIn(t, {58, 64, 47, 63})

(* ---- splitting ---- *)
IndexOf(t, cs, from) == LET I == {i \in from..Len(t) : t[i] \in cs} IN IF I = {} THEN 0 ELSE CHOOSE i \in I : \A j \in I : i <= j
LastIndexOf(t, c) == LET I == {i \in 1..Len(t) : t[i] = c} IN IF I = {} THEN 0 ELSE CHOOSE i \in I : \A j \in I : j <= i
Sub(t, a, b) == SubSeq(t, a, b)
RECURSIVE SplitOn(_, _)
SplitOn(t, c) == LET i == IndexOf(t, {c}, 1) IN IF i = 0 THEN <<t>> ELSE <<Sub(t, 1, i - 1)>> \o SplitOn(Sub(t, i + 1, Len(t)), c)

Split(t) ==
  LET d == IndexOf(t, {58, 47, 63, 35}, 1)
      hasScheme == d > 1 /\ t[d] = 58
      r1 == IF hasScheme THEN Sub(t, d + 1, Len(t)) ELSE t
      hasAuth == Len(r1) >= 2 /\ r1[1] = 47 /\ r1[2] = 47
      ae == IF hasAuth THEN IndexOf(r1, {47, 63, 35}, 3) ELSE 0
      auth == IF hasAuth THEN (IF ae = 0 THEN Sub(r1, 3, Len(r1)) ELSE Sub(r1, 3, ae - 1)) ELSE <<>>
      r2 == IF hasAuth THEN (IF ae = 0 THEN <<>> ELSE Sub(r1, ae, Len(r1))) ELSE r1
      pe == IndexOf(r2, {63, 35}, 1)
      path == IF pe = 0 THEN r2 ELSE Sub(r2, 1, pe - 1)
      r3 == IF pe = 0 THEN <<>> ELSE Sub(r2, pe, Len(r2))
      hasQuery == r3 # <<>> /\ r3[1] = 63
      qe == IF hasQuery THEN IndexOf(r3, {35}, 1) ELSE 0
      query == IF hasQuery THEN (IF qe = 0 THEN Sub(r3, 2, Len(r3)) ELSE Sub(r3, 2, qe - 1)) ELSE <<>>
      r4 == IF hasQuery THEN (IF qe = 0 THEN <<>> ELSE Sub(r3, qe, Len(r3))) ELSE r3
      frag == IF r4 # <<>> THEN Sub(r4, 2, Len(r4)) ELSE <<>>
      at == LastIndexOf(auth, 64)
      userinfo == IF at = 0 THEN <<>> ELSE Sub(auth, 1, at - 1)
      hostport == IF at = 0 THEN auth ELSE Sub(auth, at + 1, Len(auth))
      uc == IndexOf(userinfo, {58}, 1)
  IN [scheme |-> IF hasScheme THEN Sub(t, 1, d - 1) ELSE <<>>,
      hasAuth |-> hasAuth, hasUserinfo |-> at # 0,
      user |-> IF uc = 0 THEN userinfo ELSE Sub(userinfo, 1, uc - 1),
      hasPassword |-> uc # 0,
      password |-> IF uc = 0 THEN <<>> ELSE Sub(userinfo, uc + 1, Len(userinfo)),
      hostport |-> hostport,
      segments |-> SplitOn(path, 47),
      hasQuery |-> hasQuery,
      pairs |-> IF query = <<>> THEN <<>> ELSE SplitOn(query, 38),
      frag |-> frag]
KeyOfPair(p) == LET e == IndexOf(p, {61}, 1) IN IF e = 0 THEN p ELSE Sub(p, 1, e - 1)
HasVal(p) == IndexOf(p, {61}, 1) # 0
ValOfPair(p) == LET e == IndexOf(p, {61}, 1) IN Sub(p, e + 1, Len(p))
=============================================================================
