SPECIFICATION Spec
CONSTANTS SegLen = 2
INVARIANT Laws
INVARIANT Emit
CHECK_DEADLOCK FALSE
