--------------------------------- MODULE UriGenMC ---------------------------------
(* URL texts derived from the RFC 3986 grammar (bounded), for the render-after-parse  *)
(* fixed-point law; TLC also checks that the splitter takes each text apart into the  *)
(* very components it was assembled from (the grammar and the splitter agree).        *)
EXTENDS Uri, TLC, Json
VARIABLES scheme, auth, segs, pairs, frag
vars == <<scheme, auth, segs, pairs, frag>>
Body == {<<97>>, <<37, 52, 49>>, <<43>>, <<59>>, <<97, 61, 98>>, <<46>>, <<>>, <<37, 50, 53>>, <<126, 120>>}   \* a %41 + ; a=b . "" %25 ~x
SegBody == {b \in Body : 61 \notin {b[i] : i \in 1..Len(b)} \/ TRUE}
Schemes == {<<104, 116, 116, 112>>, <<120, 43, 121>>, <<>>}
Auths == {<<>>, <<47, 47, 104, 46, 99>>, <<47, 47, 117, 64, 104, 46, 99>>, <<47, 47, 117, 58, 112, 64, 104, 46, 99, 58, 56, 49>>, <<47, 47, 91, 58, 58, 49, 93>>}
RECURSIVE SeqsOf(_, _)
SeqsOf(A, n) == IF n = 0 THEN {<<>>} ELSE LET s == SeqsOf(A, n - 1) IN s \cup {Append(x, u) : x \in {y \in s : Len(y) = n - 1}, u \in A}
QBody == {<<97>>, <<37, 52, 49>>, <<43>>, <<59>>, <<>>, <<37, 50, 53>>}
Core == /\ scheme \in Schemes /\ auth \in Auths
        /\ segs \in SeqsOf({<<97>>, <<37, 52, 49>>, <<46>>, <<>>, <<43>>, <<59, 120>>}, 2)
        /\ pairs \in SeqsOf({<<k, v>> : k \in {<<97>>, <<37, 52, 49>>, <<43>>}, v \in QBody \cup {<<61>>}}, 1)
                   \cup {<< <<k, v>>, <<k2, v2>> >> : k \in {<<97>>}, v \in {<<>>, <<59>>, <<61>>}, k2 \in {<<97>>, <<43>>}, v2 \in {<<37, 52, 49>>, <<61>>}}
        /\ frag \in {<<>>, <<102>>, <<37, 52, 49>>, <<47, 63>>}
(* escapes of control characters, blank and NUL in every component (the minimal rendering writes them raw) *)
Ctl == {<<97, 37, 48, 65, 98>>, <<37, 50, 48>>, <<37, 48, 48, 120>>, <<37, 48, 68>>, <<97>>}         \* a%0Ab  %20  %00x  %0D  a
Escapes == /\ scheme = <<104, 116, 116, 112>> /\ auth \in {<<47, 47, 104, 46, 99>>, <<47, 47, 117, 37, 48, 65, 64, 104, 46, 99>>}
           /\ segs \in SeqsOf(Ctl, 2)
           /\ pairs \in {<<>>} \cup {<< <<k, v>> >> : k \in Ctl, v \in Ctl \cup {<<61>>}}
           /\ frag \in Ctl \cup {<<>>}
(* host shapes: empty labels, IPv4, upper case, U-label and A-label, empty port, empty userinfo *)
Hosts == {<<47, 47, 97, 46, 46, 98>>, <<47, 47, 49, 46, 50, 46, 51, 46, 52>>, <<47, 47, 72, 46, 67>>, <<47, 47, 233, 46, 99>>,
          <<47, 47, 120, 110, 45, 45, 56, 99, 97, 46, 99>>, <<47, 47, 104, 46, 99, 58>>, <<47, 47, 64, 104, 46, 99>>, <<47, 47, 104, 46>>,
          <<47, 47, 49, 46, 50, 46, 51, 46, 52, 58, 56, 48>>, <<47, 47>>,
          <<47, 47, 223, 46, 99>>, <<47, 47, 955, 962, 46, 99>>}      \* hosts the IDNA mapping rewrites ("\u00df.c", "\u03bb\u03c2.c")
HostRows == /\ scheme \in {<<104, 116, 116, 112>>, <<>>} /\ auth \in Hosts
            (* ... and paths that begin with empty segments ("//", "///+", "//:"): under an empty authority the text *)
            (* starts "////"                                                                                         *)
            /\ segs \in {<<>>, << <<97>> >>, << <<>>, <<97>> >>, << <<>>, <<>> >>, << <<>>, <<>>, <<43>> >>, << <<>>, <<58>> >>}
            /\ pairs \in {<<>>, << <<<<97>>, <<98>>>> >>}
            /\ frag \in {<<>>, <<102>>}
Init == /\ (Core \/ Escapes \/ HostRows)
        (* RFC 3986 3.3: without an authority the path cannot begin with "//" *)
        /\ (auth = <<>> => ~(Len(segs) >= 2 /\ Head(segs) = <<>>))
Next == UNCHANGED vars
Spec == Init /\ [][Next]_vars
RECURSIVE JoinWith(_, _)
JoinWith(ss, c) == IF ss = <<>> THEN <<>> ELSE IF Len(ss) = 1 THEN ss[1] ELSE ss[1] \o <<c>> \o JoinWith(Tail(ss), c)
PairText(p) == IF p[2] = <<61>> THEN p[1] ELSE p[1] \o <<61>> \o p[2]       \* <<61>> marks "key only"
Path == IF segs = <<>> THEN <<>> ELSE (IF auth # <<>> \/ TRUE THEN <<47>> ELSE <<>>) \o JoinWith(segs, 47)
Text == (IF scheme # <<>> THEN scheme \o <<58>> ELSE <<>>) \o auth \o Path
        \o (IF pairs # <<>> THEN <<63>> \o JoinWith([i \in 1..Len(pairs) |-> PairText(pairs[i])], 38) ELSE <<>>)
        \o (IF frag # <<>> THEN <<35>> \o frag ELSE <<>>)
WellFormed == ~(scheme # <<>> /\ auth = <<>> /\ segs = <<>> /\ pairs = <<>> /\ frag = <<>>)
SplitterAgrees == LET s == Split(Text) IN
    /\ s.scheme = scheme /\ s.hasAuth = (auth # <<>>) /\ s.frag = frag
    /\ (segs # <<>> => Tail(s.segments) = segs)
Emit == PrintT(<<"T", ToJson([text |-> Text])>>)
=============================================================================
