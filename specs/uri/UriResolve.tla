------------------------------ MODULE UriResolve ------------------------------
(***************************************************************************)
(* RFC 3986 section 5.2 reference resolution (C07), transcribed:           *)
(* 5.2.2 transform (strict), 5.2.3 merge, 5.2.4 remove_dot_segments with   *)
(* the RFC's own input-buffer / output-buffer loop, 5.3 recomposition.     *)
(* Text is a sequence of character codes.  A reference is a record         *)
(* [scheme, auth, path, query, frag] where scheme/auth/query/frag are      *)
(* <<>> (undefined) or <<text>> (defined, possibly empty).                 *)
(***************************************************************************)
EXTENDS Naturals, Integers, Sequences, FiniteSets, SequencesExt

SL == 47   \* "/"
DOT == 46  \* "."
StartsWith(s, p) == Len(s) >= Len(p) /\ SubSeq(s, 1, Len(p)) = p
DropN(s, n) == SubSeq(s, n + 1, Len(s))
(* remove the last segment and its preceding "/" (if any) from the output buffer *)
RemoveLast(out) == LET I == {i \in 1..Len(out) : out[i] = SL} IN
                   IF I = {} THEN <<>> ELSE SubSeq(out, 1, (CHOOSE i \in I : \A j \in I : j <= i) - 1)
(* first path segment of the input buffer: initial "/" if any, up to (not including) the next "/" *)
FirstSegLen(inp) == LET from == IF inp[1] = SL THEN 2 ELSE 1
                        I == {i \in from..Len(inp) : inp[i] = SL} IN
                    IF I = {} THEN Len(inp) ELSE (CHOOSE i \in I : \A j \in I : i <= j) - 1
RECURSIVE RDS(_, _)
RDS(inp, out) ==
    IF inp = <<>> THEN out
    ELSE IF StartsWith(inp, <<DOT, DOT, SL>>) THEN RDS(DropN(inp, 3), out)                 \* A
    ELSE IF StartsWith(inp, <<DOT, SL>>) THEN RDS(DropN(inp, 2), out)
    ELSE IF StartsWith(inp, <<SL, DOT, SL>>) THEN RDS(DropN(inp, 2), out)                  \* B
    ELSE IF inp = <<SL, DOT>> THEN RDS(<<SL>>, out)
    ELSE IF StartsWith(inp, <<SL, DOT, DOT, SL>>) THEN RDS(DropN(inp, 3), RemoveLast(out)) \* C
    ELSE IF inp = <<SL, DOT, DOT>> THEN RDS(<<SL>>, RemoveLast(out))
    ELSE IF inp = <<DOT>> \/ inp = <<DOT, DOT>> THEN RDS(<<>>, out)                        \* D
    ELSE LET n == FirstSegLen(inp) IN RDS(DropN(inp, n), out \o SubSeq(inp, 1, n))         \* E
RemoveDotSegments(p) == RDS(p, <<>>)

Merge(base, rpath) ==
    IF base.auth # <<>> /\ base.path = <<>> THEN <<SL>> \o rpath
    ELSE LET I == {i \in 1..Len(base.path) : base.path[i] = SL} IN
         (IF I = {} THEN <<>> ELSE SubSeq(base.path, 1, CHOOSE i \in I : \A j \in I : j <= i)) \o rpath

Resolve(B, R) ==
    IF R.scheme # <<>>
    THEN [scheme |-> R.scheme, auth |-> R.auth, path |-> RemoveDotSegments(R.path), query |-> R.query, frag |-> R.frag]
    ELSE IF R.auth # <<>>
    THEN [scheme |-> B.scheme, auth |-> R.auth, path |-> RemoveDotSegments(R.path), query |-> R.query, frag |-> R.frag]
    ELSE IF R.path = <<>>
    THEN [scheme |-> B.scheme, auth |-> B.auth, path |-> B.path, query |-> IF R.query # <<>> THEN R.query ELSE B.query, frag |-> R.frag]
    ELSE [scheme |-> B.scheme, auth |-> B.auth,
          path |-> IF R.path[1] = SL THEN RemoveDotSegments(R.path) ELSE RemoveDotSegments(Merge(B, R.path)),
          query |-> R.query, frag |-> R.frag]

(* recomposition; an empty path under an authority is written "/" *)
Recompose(T) ==
    (IF T.scheme # <<>> THEN T.scheme[1] \o <<58>> ELSE <<>>)
    \o (IF T.auth # <<>> THEN <<SL, SL>> \o T.auth[1] ELSE <<>>)
    \o (IF T.auth # <<>> /\ T.path = <<>> THEN <<SL>> ELSE T.path)
    \o (IF T.query # <<>> THEN <<63>> \o T.query[1] ELSE <<>>)
    \o (IF T.frag # <<>> THEN <<35>> \o T.frag[1] ELSE <<>>)

(* the text exactly as written (an empty path stays empty): how bases and references are handed to the code *)
Written(T) ==
    (IF T.scheme # <<>> THEN T.scheme[1] \o <<58>> ELSE <<>>)
    \o (IF T.auth # <<>> THEN <<SL, SL>> \o T.auth[1] ELSE <<>>)
    \o T.path
    \o (IF T.query # <<>> THEN <<63>> \o T.query[1] ELSE <<>>)
    \o (IF T.frag # <<>> THEN <<35>> \o T.frag[1] ELSE <<>>)

(* segments of a path, for the "no dot segments left / never above the root" laws *)
RECURSIVE Segs(_, _, _)
Segs(p, b, i) == IF i > Len(p) THEN <<SubSeq(p, b, Len(p))>>
                 ELSE IF p[i] = SL THEN <<SubSeq(p, b, i - 1)>> \o Segs(p, i + 1, i + 1) ELSE Segs(p, b, i + 1)
NoDotSegments(p) == \A s \in {Segs(p, 1, 1)[i] : i \in 1..Len(Segs(p, 1, 1))} : s # <<DOT>> /\ s # <<DOT, DOT>>
=============================================================================
