SPECIFICATION Spec
CONSTANTS SegLen = 3
INVARIANT Laws
INVARIANT Emit
CHECK_DEADLOCK FALSE
