SPECIFICATION Spec
INVARIANT SplitterAgrees
INVARIANT Emit
CHECK_DEADLOCK FALSE
