--------------------------------- MODULE UriTrace ---------------------------------
(* Validates records produced by the real urlutils (C06), one TLC state per record:        *)
(*  kind "cell": components placed into a URL, its fully quoted rendering, boltons' own    *)
(*     re-parse.  The rendering must be legal character by character and, split by the     *)
(*     RFC grammar, denote exactly the intended components (nothing leaks); the re-parse   *)
(*     must give them back.                                                                *)
(*  kind "quote": fn, input, quoted, unquoted -> legal for that component, decodes back     *)
(*  kind "total": outcome of URL(text) and of find_all_links(text)                         *)
EXTENDS Uri, TLC, Json, IOUtils
Traces == JsonDeserialize(IOEnv.TRACE_FILE)
VARIABLES tid, l
vars == <<tid, l>>

PairOK(p, want) == /\ PctBytes(PlusToSpace(KeyOfPair(p))) = Utf8(want[1])
                   /\ (want[2] = <<>> => ~HasVal(p) \/ ValOfPair(p) = <<>>)        \* want[2]: <<>> = no value, <<v>> = value v
                   /\ (want[2] # <<>> => HasVal(p) /\ PctBytes(PlusToSpace(ValOfPair(p))) = Utf8(want[2][1]))
CellWhy(r) ==
  LET s == Split(r.text)  w == r.want IN
  IF ~LegalUserinfo(s.user) \/ ~LegalUserinfo(s.password) THEN "illegal-character-in-userinfo"
  ELSE IF \E i \in 1..Len(s.segments) : ~LegalSegment(s.segments[i]) THEN "illegal-character-in-path"
  ELSE IF \E i \in 1..Len(s.pairs) : ~LegalQuery(s.pairs[i]) THEN "illegal-character-in-query"
  ELSE IF ~LegalFragment(s.frag) THEN "illegal-character-in-fragment"
  ELSE IF PctBytes(s.user) # Utf8(w.username) THEN "username-not-recovered-by-grammar"
  ELSE IF PctBytes(s.password) # Utf8(w.password) THEN "password-not-recovered-by-grammar"
  ELSE IF Len(s.segments) # Len(w.path) \/ \E i \in 1..Len(w.path) : PctBytes(s.segments[i]) # Utf8(w.path[i]) THEN "path-not-recovered-by-grammar"
  ELSE IF Len(s.pairs) # Len(w.query) \/ \E i \in 1..Len(w.query) : ~PairOK(s.pairs[i], w.query[i]) THEN "query-not-recovered-by-grammar"
  ELSE IF PctBytes(s.frag) # Utf8(w.fragment) THEN "fragment-not-recovered-by-grammar"
  ELSE IF r.reparsed # w THEN "boltons-reparse-differs"
  ELSE ""
QuoteWhy(r) ==
  IF ~(CASE r.fn = "userinfo" -> LegalUserinfo(r.quoted) [] r.fn = "path" -> LegalSegment(r.quoted)
         [] r.fn = "query" -> LegalQuery(r.quoted) /\ \A i \in 1..Len(r.quoted) : r.quoted[i] \notin {38, 61, 43, 59}
         [] OTHER -> LegalFragment(r.quoted)) THEN "quoted-text-not-legal"
  ELSE IF PctBytes(r.quoted) # Utf8(r.input) THEN "quote-does-not-denote-input"
  ELSE IF r.unquoted # r.input THEN "unquote-does-not-invert"
  ELSE ""
TotalWhy(r) == IF r.outcome \notin {"url", "URLParseError"} THEN "URL()-raised-" \o r.outcome
               ELSE IF r.links # "ok" THEN "find_all_links-raised-" \o r.links ELSE ""
(*  kind "unquote": unquote(input) decodes every well-formed percent-XX escape and leaves everything else alone *)
UnquoteWhy(r) == IF Utf8(r.unquoted) # PctBytes(r.input) THEN "unquote-touches-something-else-or-misses-an-escape" ELSE ""
Why(r) == CASE r.kind = "cell" -> CellWhy(r) [] r.kind = "quote" -> QuoteWhy(r) [] r.kind = "total" -> TotalWhy(r)
            [] r.kind = "unquote" -> UnquoteWhy(r) [] OTHER -> "unknown-kind"
Init == tid \in 1..Len(Traces) /\ l = 1
Step == /\ l = 1
        /\ LET w == Why(Traces[tid]) IN
           IF w = "" THEN l' = 2 /\ tid' = tid
           ELSE /\ PrintT(<<"REJECT", ToJson([tid |-> tid, l |-> 1, st |-> [why |-> w], exp |-> {[why |-> w]}])>>)
                /\ l' = 0 /\ tid' = tid
Spec == Init /\ [][Step]_vars
Accept == (l = 2) => PrintT(<<"ACCEPT", tid>>)
=============================================================================
