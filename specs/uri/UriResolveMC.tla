----------------------------- MODULE UriResolveMC -----------------------------
EXTENDS UriResolve, TLC, Json
CONSTANTS SegLen
VARIABLES B, R
vars == <<B, R>>
a == 97
b == 98
Txt(s) == s
Scheme == <<104, 116, 116, 112>>            \* "http"
Host == <<104>>                              \* "h"
RepQ == <<107, 61, 49, 38, 107, 61, 50>>          \* "k=1&k=2": a repeated key, to be carried over verbatim
RepR == <<116, 61, 120, 38, 116, 61, 121>>        \* "t=x&t=y"
BasePaths == {<<SL, 37, 50, 53, 52, 49, SL, b>>, <<>>, <<SL>>, <<SL, a>>, <<SL, a, SL>>, <<SL, a, SL, b>>, <<SL, a, SL, b, SL>>, <<SL, a, SL, b, SL, 99>>, <<SL, a, SL, SL, b>>}
(* authorities with userinfo and port, an IP literal with port, and the scheme's default port written out *)
UserPort == <<117, 58, 112, 64, 104, 58, 56, 48, 56, 48>>      \* "u:p@h:8080"
V6Port == <<91, 58, 58, 49, 93, 58, 56, 49>>                  \* "[::1]:81"
UserOnly == <<117, 64, 104>>                                   \* "u@h"
(* hosts with characters the IDNA mapping would rewrite (sharp s -> "ss", final sigma -> sigma, full-width h -> h): *)
(* resolution carries the authority over as it stands                                                           *)
IdnSharp == <<117, 64, 115, 116, 114, 97, 223, 101, 46, 120, 58, 56, 49>>      \* "u@stra\u00dfe.x:81"
IdnSigma == <<955, 962, 46, 120>>                                               \* "\u03bb\u03c2.x"
IdnWide == <<65352, 46, 120>>                                                   \* "\uff48.x"
(* "%2541": an escaped percent sign followed by "41" - decoding it twice gives "A" *)
Pct41 == <<37, 50, 53, 52, 49>>
PctPath == <<SL, a>> \o Pct41 \o <<SL, DOT, DOT, SL, 99>> \o Pct41
Bases == {[scheme |-> <<Scheme>>, auth |-> <<Host>>, path |-> p, query |-> q, frag |-> f] :
            p \in BasePaths, q \in {<<>>, << <<113>> >>, << RepQ >>}, f \in {<<>>, << <<102>> >>}}
         \cup {[scheme |-> <<Scheme>>, auth |-> <<au>>, path |-> p, query |-> q, frag |-> <<>>] :
            au \in {UserPort, V6Port, UserOnly, IdnSharp, IdnSigma, IdnWide}, p \in {<<>>, <<SL, a, SL, b>>}, q \in {<<>>, << <<113>> >>}}
SegAlpha == {<<a>>, <<DOT, DOT, b>>, <<DOT>>, <<DOT, DOT>>, <<>>, <<DOT, DOT, DOT>>}     \* incl. the look-alikes "..b" and "..."
RECURSIVE SegSeqs(_)
SegSeqs(n) == IF n = 0 THEN {<<>>} ELSE LET s == SegSeqs(n - 1) IN s \cup {Append(x, g) : x \in {y \in s : Len(y) = n - 1}, g \in SegAlpha}
RECURSIVE Join(_)
Join(ss) == IF ss = <<>> THEN <<>> ELSE IF Len(ss) = 1 THEN ss[1] ELSE ss[1] \o <<SL>> \o Join(Tail(ss))
(* a reference starting with "//" would carry an authority: outside the statement, not generated *)
RefPaths == {p \in {(IF lead THEN <<SL>> ELSE <<>>) \o Join(ss) \o (IF trail /\ ss # <<>> THEN <<SL>> ELSE <<>>) :
                       ss \in SegSeqs(SegLen), lead \in BOOLEAN, trail \in BOOLEAN} : ~StartsWith(p, <<SL, SL>>)}
(* a relative-path reference whose first segment contains ":" would parse as a scheme: none generated *)
QF == {<< << RepR >>, <<>> >>, << <<>>, <<>> >>, << << <<121>> >>, <<>> >>, << <<>>, << <<115>> >> >>, << << <<121>> >>, << <<115>> >> >>,
       << << <<>> >>, <<>> >>, << <<>>, << <<>> >> >>}
(* segments holding an escaped slash ("%2F"): decoded they contain "/", but they are single segments of a relative path *)
PctSlash == <<37, 50, 70>>
EscRefPaths == {PctSlash \o <<a>>, PctSlash \o <<a, SL, b>>, <<a, SL>> \o PctSlash, <<DOT, DOT, SL>> \o PctSlash \o <<b>>, PctSlash}
Refs == {[scheme |-> <<>>, auth |-> <<>>, path |-> p, query |-> qf[1], frag |-> qf[2]] : p \in RefPaths, qf \in QF}
    \cup {[scheme |-> <<>>, auth |-> <<>>, path |-> p, query |-> <<>>, frag |-> <<>>] : p \in EscRefPaths}
    \cup {[scheme |-> << <<102, 116, 112>> >>, auth |-> << au >>, path |-> p, query |-> <<>>, frag |-> <<>>] :
             au \in {<<120>>, <<102, 97, 223, 46, 120>>}, p \in {<<>>, <<SL, a, SL, DOT, DOT, SL, b>>}}
    (* (escapes are compared fully quoted, which would also IDNA-encode the other host: with the ASCII host only) *)
    \cup {[scheme |-> << <<102, 116, 112>> >>, auth |-> << <<120>> >>, path |-> PctPath, query |-> <<>>, frag |-> <<>>]}
    (* an absolute reference with query and fragment, escapes of "%" in all three *)
    \cup {[scheme |-> << <<102, 116, 112>> >>, auth |-> << <<120>> >>, path |-> <<SL, a>>, query |-> << <<107, 61>> \o Pct41 >>, frag |-> << Pct41 >>]}
Refs2 == << <<>>, <<DOT, DOT, SL, b>>, <<SL, b>>, <<a>>, <<DOT>> >>
(* second reference for the chaining law, varied with the first *)
R2 == [scheme |-> <<>>, auth |-> <<>>, path |-> Refs2[((Len(R.path) + Len(B.path)) % 5) + 1], query |-> <<>>, frag |-> <<>>]
Init == B \in Bases /\ R \in Refs
Next == UNCHANGED vars
Spec == Init /\ [][Next]_vars
T == Resolve(B, R)
Laws == /\ NoDotSegments(T.path)
        /\ (T.path # <<>> => T.path[1] = SL)                                     \* stays rooted under the authority
        /\ RemoveDotSegments(T.path) = T.path                                    \* normalizing again changes nothing
        /\ (R.scheme = <<>> => T.scheme = B.scheme /\ T.auth = B.auth)
Emit == PrintT(<<"T", ToJson([base |-> Written(B), ref |-> Written(R), target |-> Recompose(T),
                             ref2 |-> Written(R2), target2 |-> Recompose(Resolve(T, R2)),
                             rq |-> IF R.query = << <<>> >> THEN 1 ELSE 0, rf |-> IF R.frag = << <<>> >> THEN 1 ELSE 0])>>)
(* RFC 3986 section 5.4 examples (base http://a/b/c/d;p?q), a few, as a sanity anchor of the transcription *)
RFCBase == [scheme |-> <<Scheme>>, auth |-> << <<a>> >>, path |-> <<SL, b, SL, 99, SL, 100, 59, 112>>, query |-> << <<113>> >>, frag |-> <<>>]
Rel(p) == [scheme |-> <<>>, auth |-> <<>>, path |-> p, query |-> <<>>, frag |-> <<>>]
ASSUME Resolve(RFCBase, Rel(<<103>>)).path = <<SL, b, SL, 99, SL, 103>>                                 \* "g" -> /b/c/g
ASSUME Resolve(RFCBase, Rel(<<DOT, DOT, SL, DOT, DOT, SL, 103>>)).path = <<SL, 103>>                    \* "../../g" -> /g
ASSUME Resolve(RFCBase, Rel(<<DOT, DOT, SL, DOT, DOT, SL, DOT, DOT, SL, 103>>)).path = <<SL, 103>>      \* "../../../g" -> /g
ASSUME Resolve(RFCBase, Rel(<<DOT, SL, 103, SL, DOT>>)).path = <<SL, b, SL, 99, SL, 103, SL>>           \* "./g/." -> /b/c/g/
ASSUME Resolve(RFCBase, Rel(<<103, SL, DOT, DOT, SL, 104>>)).path = <<SL, b, SL, 99, SL, 104>>          \* "g/../h" -> /b/c/h
ASSUME Resolve(RFCBase, Rel(<<DOT, DOT>>)).path = <<SL, b, SL>>                                         \* ".." -> /b/
ASSUME Resolve(RFCBase, Rel(<<>>)).path = RFCBase.path /\ Resolve(RFCBase, Rel(<<>>)).query = RFCBase.query
ASSUME Resolve(RFCBase, Rel(<<SL, DOT, SL, 103>>)).path = <<SL, 103>>                                   \* "/./g" -> /g
=============================================================================
