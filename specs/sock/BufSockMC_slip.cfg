SPECIFICATION Spec
CONSTANTS Bytes = {1, 8, 9}  MaxLen = 5  RecvSize = 3  MaxTimeouts = 2  OffsetSlip = 1
INVARIANT InvChunkingIndependent
INVARIANT InvConservedAtRetry
CHECK_DEADLOCK FALSE
