------------------------------ MODULE BufSockMC ------------------------------
(* One receive call, retried after every Timeout, under every chunking of the *)
(* undelivered bytes (1..RecvSize per socket.recv) and every placement of up  *)
(* to MaxTimeouts timeouts; the loops are those of the implementation, one    *)
(* socket.recv per step, including the rolling search offset of recv_until.   *)
EXTENDS BufSock, TLC
CONSTANTS Bytes, MaxLen, RecvSize, MaxTimeouts, OffsetSlip   \* OffsetSlip = 0 in the real algorithm (negative control: 1)
VARIABLES R0,        \* everything available at the start (buffer + undelivered)
          call, rbuf, rest, pc, recvd, fos, chunks, total, result, nto
vars == <<R0, call, rbuf, rest, pc, recvd, fos, chunks, total, result, nto>>

RECURSIVE SeqsUpTo(_)
SeqsUpTo(n) == IF n = 0 THEN {<<>>} ELSE LET s == SeqsUpTo(n - 1) IN s \cup {Append(x, b) : x \in {y \in s : Len(y) = n - 1}, b \in Bytes}
Delims == {<<8>>, <<8, 9>>}
Calls == {Call("recv_until", 0, d, m, w) : d \in Delims, m \in {2, 3, MaxLen + 2}, w \in BOOLEAN}
    \cup {Call("recv_size", n, <<>>, 0, FALSE) : n \in 1..(MaxLen + 1)}

Init == /\ R0 \in SeqsUpTo(MaxLen)
        /\ call \in Calls
        /\ \E k \in 0..Len(R0) : rbuf = Take(R0, k) /\ rest = DropN(R0, k)
        /\ pc = "start" /\ recvd = <<>> /\ fos = 0 /\ chunks = <<>> /\ total = 0
        /\ result = Err("none") /\ nto = 0

Finish(r, newbuf) == /\ result' = r /\ rbuf' = newbuf /\ pc' = "done"
                     /\ UNCHANGED <<R0, call, rest, recvd, fos, chunks, total, nto>>
(* a Timeout ends this attempt with everything read so far back in the buffer; the caller retries *)
TimeoutRetry(newbuf) == /\ nto < MaxTimeouts /\ nto' = nto + 1
                        /\ rbuf' = newbuf /\ pc' = "start"
                        /\ UNCHANGED <<R0, call, rest, recvd, fos, chunks, total, result>>

Start == /\ pc = "start"
         /\ IF call.c = "recv_until"
            THEN /\ recvd' = rbuf /\ fos' = 0 /\ pc' = "until_check" /\ UNCHANGED <<chunks, total>>
            ELSE /\ chunks' = <<>> /\ total' = 0 /\ pc' = "size_first" /\ UNCHANGED <<recvd, fos>>
         /\ UNCHANGED <<R0, call, rbuf, rest, result, nto>>

(* ---- recv_until ---- *)
UntilCheck == /\ pc = "until_check"
              /\ LET off == Find(recvd, call.delim, fos, call.maxsize) IN
                 IF off # -1
                 THEN Finish(Ok(Take(recvd, IF call.withd THEN off + Len(call.delim) ELSE off)),
                             DropN(recvd, off + Len(call.delim)))
                 ELSE IF Len(recvd) > call.maxsize THEN Finish(Err("MessageTooLong"), recvd)
                 ELSE /\ pc' = "until_recv" /\ UNCHANGED <<R0, call, rbuf, rest, recvd, fos, chunks, total, result, nto>>
UntilRecv == /\ pc = "until_recv"
             /\ \/ \E n \in 1..MinN(RecvSize, Len(rest)) :
                     /\ recvd' = recvd \o Take(rest, n) /\ rest' = DropN(rest, n)
                     /\ fos' = 0 - n - Len(call.delim) + 1 + OffsetSlip
                     /\ pc' = "until_check"
                     /\ UNCHANGED <<R0, call, rbuf, chunks, total, result, nto>>
                \/ /\ rest = <<>> /\ Finish(Err("ConnectionClosed"), recvd)
                \/ TimeoutRetry(recvd)

(* ---- recv_size ---- *)
Flat(cs) == FoldSeq(LAMBDA x, acc : acc \o x, <<>>, cs)
RECURSIVE CatAll(_)
CatAll(cs) == IF cs = <<>> THEN <<>> ELSE Head(cs) \o CatAll(Tail(cs))
SizeGot(nxt) ==    \* the body of the while loop for a non-empty nxt
    IF total + Len(nxt) >= call.size
    THEN LET extra == total + Len(nxt) - call.size IN
         Finish(Ok(CatAll(chunks) \o Take(nxt, Len(nxt) - extra)), DropN(nxt, Len(nxt) - extra))
    ELSE /\ chunks' = Append(chunks, nxt) /\ total' = total + Len(nxt) /\ pc' = "size_recv"
         /\ UNCHANGED <<R0, call, rbuf, rest, recvd, fos, result, nto>>
SizeFirst == /\ pc = "size_first"
             /\ IF rbuf # <<>> THEN SizeGot(rbuf) ELSE (pc' = "size_recv" /\ UNCHANGED <<R0, call, rbuf, rest, recvd, fos, chunks, total, result, nto>>)
SizeRecv == /\ pc = "size_recv"
            /\ \/ \E n \in 1..MinN(RecvSize, Len(rest)) :
                    LET nxt == Take(rest, n) IN
                    IF total + n >= call.size
                    THEN LET extra == total + n - call.size IN
                         /\ result' = Ok(CatAll(chunks) \o Take(nxt, n - extra)) /\ rbuf' = DropN(nxt, n - extra)
                         /\ rest' = DropN(rest, n) /\ pc' = "done"
                         /\ UNCHANGED <<R0, call, recvd, fos, chunks, total, nto>>
                    ELSE /\ chunks' = Append(chunks, nxt) /\ total' = total + n /\ rest' = DropN(rest, n)
                         /\ UNCHANGED <<R0, call, rbuf, pc, recvd, fos, result, nto>>
               \/ /\ rest = <<>> /\ Finish(Err("ConnectionClosed"), CatAll(chunks))
               \/ TimeoutRetry(CatAll(chunks))

Next == Start \/ UntilCheck \/ UntilRecv \/ SizeFirst \/ SizeRecv
Spec == Init /\ [][Next]_vars

(* whatever the chunking and the timeouts: the reference result, and no byte lost or duplicated *)
InvChunkingIndependent == pc = "done" =>
    /\ result = Ref(call, R0).r
    /\ rbuf \o rest = DropN(R0, Ref(call, R0).used)
(* conservation between attempts (after a Timeout everything read is back in the buffer) *)
InvConservedAtRetry == pc = "start" => rbuf \o rest = R0
=============================================================================
