------------------------------- MODULE BufSock -------------------------------
(***************************************************************************)
(* socketutils.BufferedSocket receive side (C12).                          *)
(*                                                                         *)
(* Ref(call, R): what a call returns (or raises) when the whole remaining  *)
(* stream R (bytes still buffered followed by bytes not yet delivered,     *)
(* then end of stream) is available at once - the property's yardstick.    *)
(* The module also models the receive LOOPS of recv_until and recv_size    *)
(* one socket.recv at a time (BufSockMC explores every chunking and every  *)
(* placement of timeouts) and states byte conservation.                    *)
(* Bytes are small integers; results: [e |-> "ok" | exception name,        *)
(* v |-> bytes returned].                                                  *)
(***************************************************************************)
EXTENDS Naturals, Integers, Sequences, FiniteSets, SequencesExt

Ok(v)  == [e |-> "ok", v |-> v]
Err(n) == [e |-> n, v |-> <<>>]
MinN(a, b) == IF a < b THEN a ELSE b
MaxN(a, b) == IF a > b THEN a ELSE b
Take(s, n) == SubSeq(s, 1, MinN(n, Len(s)))
DropN(s, n) == SubSeq(s, MinN(n, Len(s)) + 1, Len(s))

(* bytes.find(d, from, to): smallest 0-based i >= from with the whole match inside [0, to) ; -1 if none. *)
(* from may be negative (relative to the end), as Python allows.                                         *)
Find(s, d, from, to) ==
    LET lo == IF from < 0 THEN MaxN(Len(s) + from, 0) ELSE from
        hi == MinN(to, Len(s))
        ok == {i \in lo..(hi - Len(d)) : SubSeq(s, i + 1, i + Len(d)) = d}
    IN IF ok = {} THEN -1 ELSE CHOOSE i \in ok : \A j \in ok : i <= j

(* call records: [c, size, delim, maxsize, withd] *)
Call(c, size, delim, maxsize, withd) == [c |-> c, size |-> size, delim |-> delim, maxsize |-> maxsize, withd |-> withd]

(* reference outcome and number of bytes consumed from R *)
Ref(call, R) ==
  CASE call.c = "recv_until" ->
         LET off == Find(R, call.delim, 0, call.maxsize) IN
         IF off # -1 THEN [r |-> Ok(Take(R, IF call.withd THEN off + Len(call.delim) ELSE off)), used |-> off + Len(call.delim)]
         ELSE IF Len(R) > call.maxsize THEN [r |-> Err("MessageTooLong"), used |-> 0]
         ELSE [r |-> Err("ConnectionClosed"), used |-> 0]
    [] call.c = "recv_size" ->
         IF Len(R) >= call.size THEN [r |-> Ok(Take(R, call.size)), used |-> call.size]
         ELSE [r |-> Err("ConnectionClosed"), used |-> 0]
    [] call.c = "peek" ->
         IF Len(R) >= call.size THEN [r |-> Ok(Take(R, call.size)), used |-> 0]
         ELSE [r |-> Err("ConnectionClosed"), used |-> 0]
    [] call.c = "recv_close" ->
         IF Len(R) <= call.maxsize THEN [r |-> Ok(R), used |-> Len(R)]
         ELSE [r |-> Err("MessageTooLong"), used |-> 0]

(* recv(size): any non-empty prefix no longer than size; empty only at end of stream *)
RecvOk(size, R, v) == /\ IsPrefix(v, R) /\ Len(v) <= size
                      /\ (v = <<>> <=> R = <<>>)
=============================================================================
