----------------------------- MODULE BufSockTrace -----------------------------
(* Validates recorded BufferedSocket / NetstringSocket sessions over a scripted   *)
(* socket. kind = "recv": the stream S is known; every event is one ATTEMPT of a  *)
(* receive call (a Timeout is an attempt; the harness then retries) with its      *)
(* outcome, the receive buffer and the number of bytes the socket has delivered.  *)
(* kind = "send": events are send / buffer / flush attempts with the bytes on the *)
(* wire and the send buffer afterwards. kind = "ns": payloads written with        *)
(* write_ns, the wire, and what read_ns returned under some chunking.             *)
EXTENDS BufSock, TLC, Json, IOUtils
Traces == JsonDeserialize(IOEnv.TRACE_FILE)
VARIABLES tid, l, rbuf, pos, acc
vars == <<tid, l, rbuf, pos, acc>>

S == Traces[tid].stream
Undelivered(p) == SubSeq(S, p + 1, Len(S))

(* an attempt cut short by a Timeout or by an error of the underlying socket (EWOULDBLOCK on a non-blocking *)
(* socket, a reset): nothing handed out, nothing lost - buffer plus undelivered bytes are what they were  *)
Interrupted == {"Timeout", "BlockingIOError", "ConnectionResetError"}
RecvGood(ev) ==
  LET R == rbuf \o Undelivered(pos)
      R2 == ev.rbuf \o Undelivered(ev.pos) IN
  /\ ev.pos >= pos /\ ev.pos <= Len(S)
  /\ IF ev.r.e \in Interrupted THEN R2 = R
     ELSE IF ev.call.c = "recv" THEN ev.r.e = "ok" /\ RecvOk(ev.call.size, R, ev.r.v) /\ R2 = DropN(R, Len(ev.r.v))
     ELSE ev.r = Ref(ev.call, R).r /\ R2 = DropN(R, Ref(ev.call, R).used)

SendGood(ev) ==
  LET acc2 == acc \o ev.data IN
  /\ ev.wire \o ev.sbuf = acc2
  /\ ev.r.e \in {"ok", "Timeout"}
  /\ (ev.r.e = "ok" /\ ev.call \in {"send", "sendall", "flush"}) => ev.sbuf = <<>>

RECURSIVE Digits(_)
Digits(n) == IF n < 10 THEN <<48 + n>> ELSE Digits(n \div 10) \o <<48 + (n % 10)>>
NsEncode(p) == Digits(Len(p)) \o <<58>> \o p \o <<44>>
RECURSIVE NsWire(_)
NsWire(ps) == IF ps = <<>> THEN <<>> ELSE NsEncode(Head(ps)) \o NsWire(Tail(ps))
(* every message is within the limit in force for its read (instance maxsize, setmaxsize or per-call maxsize): *)
(* the recorder only builds such sessions; what an over-long message does is not part of the property         *)
NsPre(tr) == \A i \in 1..Len(tr.payloads) : Len(tr.payloads[i]) <= tr.limits[i]
NsGood(tr) == /\ tr.wire = NsWire(tr.payloads)
              /\ tr.read = tr.payloads
              /\ tr.after.e = "ConnectionClosed"      \* reading past the last message: the stream has ended

Init == /\ tid \in 1..Len(Traces) /\ l = 1 /\ rbuf = <<>> /\ pos = 0 /\ acc = <<>>
Reject(exp) == /\ PrintT(<<"REJECT", ToJson([tid |-> tid, l |-> l, st |-> [rbuf |-> rbuf, pos |-> pos, acc |-> acc], exp |-> exp])>>)
               /\ l' = 0 /\ UNCHANGED <<tid, rbuf, pos, acc>>
Step ==
  /\ l >= 1
  /\ LET tr == Traces[tid] IN
     IF tr.kind = "ns"
     THEN /\ l = 1
          /\ IF NsGood(tr) \/ ~NsPre(tr) THEN l' = 2 /\ UNCHANGED <<tid, rbuf, pos, acc>>
             ELSE Reject({[wire |-> NsWire(tr.payloads)]})
     ELSE /\ l <= Len(tr.ev)
          /\ LET ev == tr.ev[l] IN
             IF tr.kind = "recv"
             THEN IF RecvGood(ev) THEN l' = l + 1 /\ rbuf' = ev.rbuf /\ pos' = ev.pos /\ UNCHANGED <<tid, acc>>
                  ELSE Reject({[ref |-> IF ev.call.c = "recv" THEN Ok(<<>>) ELSE Ref(ev.call, rbuf \o Undelivered(pos)).r]})
             ELSE IF SendGood(ev) THEN l' = l + 1 /\ acc' = acc \o ev.data /\ UNCHANGED <<tid, rbuf, pos>>
                  ELSE Reject({[acc |-> acc \o ev.data]})
Spec == Init /\ [][Step]_vars
Done == IF Traces[tid].kind = "ns" THEN l = 2 ELSE l = Len(Traces[tid].ev) + 1
Accept == Done => PrintT(<<"ACCEPT", tid>>)
=============================================================================
