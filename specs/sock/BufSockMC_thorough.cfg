SPECIFICATION Spec
CONSTANTS Bytes = {1, 8, 9}  MaxLen = 6  RecvSize = 4  MaxTimeouts = 3  OffsetSlip = 0
INVARIANT InvChunkingIndependent
INVARIANT InvConservedAtRetry
CHECK_DEADLOCK FALSE
