-------------------------------- MODULE OMD --------------------------------
(***************************************************************************)
(* Reference semantics of boltons.dictutils.OrderedMultiDict (C01):        *)
(* an insertion-ordered list of (key, value) pairs.                        *)
(*                                                                         *)
(* Atoms are integers; keys and values share one universe (inverted()      *)
(* swaps them); 0 = None, -1 = "argument not given".                       *)
(* State  [ps |-> Seq([k, v]), term |-> BOOLEAN]  (term: a derived object, *)
(* observed but not explored further in the bounded model).                *)
(***************************************************************************)
EXTENDS Naturals, Integers, Sequences, FiniteSets, SequencesExt

P(k, v) == [k |-> k, v |-> v]
KeySet(ps) == {ps[i].k : i \in 1..Len(ps)}
HasK(ps, k) == k \in KeySet(ps)
DropKey(ps, k) == SelectSeq(ps, LAMBDA e : e.k # k)
DropKeys(ps, ks) == SelectSeq(ps, LAMBDA e : e.k \notin ks)
OfKey(ps, k) == SelectSeq(ps, LAMBDA e : e.k = k)
ValsOf(ps, k) == LET s == OfKey(ps, k) IN [i \in 1..Len(s) |-> s[i].v]
LastV(ps, k) == LET s == OfKey(ps, k) IN s[Len(s)].v
LastIdx(ps, k) == CHOOSE i \in 1..Len(ps) : ps[i].k = k /\ \A j \in (i+1)..Len(ps) : ps[j].k # k


(* keys in first-occurrence order *)
RECURSIVE Dedup(_, _)
Dedup(ks, seen) == IF ks = <<>> THEN <<>>
                   ELSE IF Head(ks) \in seen THEN Dedup(Tail(ks), seen)
                   ELSE <<Head(ks)>> \o Dedup(Tail(ks), seen \cup {Head(ks)})
KeysT(ps) == [i \in 1..Len(ps) |-> ps[i].k]
KeysF(ps) == Dedup(KeysT(ps), {})
ValsT(ps) == [i \in 1..Len(ps) |-> ps[i].v]
ItemsT(ps) == [i \in 1..Len(ps) |-> <<ps[i].k, ps[i].v>>]
ItemsF(ps) == LET kf == KeysF(ps) IN [i \in 1..Len(kf) |-> <<kf[i], LastV(ps, kf[i])>>]
ValsF(ps) == LET kf == KeysF(ps) IN [i \in 1..Len(kf) |-> LastV(ps, kf[i])]
Rev(s) == [i \in 1..Len(s) |-> s[Len(s) + 1 - i]]

(* ----- mutators ----- *)
SetItem(ps, k, v) == Append(DropKey(ps, k), P(k, v))
(* update with pairs / an OMD / a mapping / kwargs: every key of the argument *)
(* loses its old pairs, then all argument pairs are appended in order         *)
Update(ps, arg) == DropKeys(ps, KeySet(arg)) \o arg
Extend(ps, arg) == ps \o arg
AddList(ps, k, vs) == ps \o [i \in 1..Len(vs) |-> P(k, vs[i])]
PairsF(ps) == LET it == ItemsF(ps) IN [i \in 1..Len(it) |-> P(it[i][1], it[i][2])]

(* ----- derived objects ----- *)
PairLess(a, b) == a.k < b.k \/ (a.k = b.k /\ a.v < b.v)
Sorted(ps) == SortSeq(ps, PairLess)
Inverted(ps) == [i \in 1..Len(ps) |-> P(ps[i].v, ps[i].k)]
Counts(ps) == LET kf == KeysF(ps) IN [i \in 1..Len(kf) |-> P(kf[i], Len(OfKey(ps, kf[i])))]
(* same keys in the same positions; the values of each key sorted ascending *)
RankIn(ps, i) == Cardinality({j \in 1..i : ps[j].k = ps[i].k})
SortedValues(ps) ==
    [i \in 1..Len(ps) |-> P(ps[i].k, SortSeq(ValsOf(ps, ps[i].k), <)[RankIn(ps, i)])]

(* sorted(key=value of the item): list.sort is stable - pairs with equal values keep their order *)
SortedByVal(ps) == LET before(i, j) == ps[i].v < ps[j].v \/ (ps[i].v = ps[j].v /\ i < j)
                       order == SortSeq([i \in 1..Len(ps) |-> i], before)
                   IN [i \in 1..Len(ps) |-> ps[order[i]]]
SortedValuesRev(ps) ==
    [i \in 1..Len(ps) |-> P(ps[i].k, Rev(SortSeq(ValsOf(ps, ps[i].k), <))[RankIn(ps, i)])]

Comparable(ps) == \A i \in 1..Len(ps) : ps[i].k # 0 /\ ps[i].v # 0

Ok(v)  == [e |-> "ok", v |-> v]
Err(n) == [e |-> n, v |-> <<>>]
St(ps) == [ps |-> ps, term |-> FALSE]
Term(ps) == [ps |-> ps, term |-> TRUE]
Out(s, r) == [s |-> s, r |-> r]
Dflt(d) == IF d = -1 THEN 0 ELSE d

(* op records always carry: op, k, v, d, arg (sequence of pairs), vs (sequence of values) *)
Op(name, k, v, d, arg, vs) == [op |-> name, k |-> k, v |-> v, d |-> d, arg |-> arg, vs |-> vs]

Outcomes(st, o) ==
  LET ps == st.ps  k == o.k IN
  CASE o.op = "add"      -> {Out(St(Append(ps, P(k, o.v))), Ok(<<>>))}
    [] o.op = "addlist"  -> {Out(St(AddList(ps, k, o.vs)), Ok(<<>>))}
    (* an argument that breaks off: the iterable raises after o.d items. The call raises; what it had taken in before may or *)
    (* may not have been applied (an implementation may collect the items first), but nothing else has happened            *)
    [] o.op = "addlist_failing" -> {Out(St(AddList(ps, k, SubSeq(o.vs, 1, i))), Err("RuntimeError")) : i \in 0..o.d}
    [] o.op = "update_failing"  -> {Out(St(Update(ps, SubSeq(o.arg, 1, i))), Err("RuntimeError")) : i \in 0..o.d}
    [] o.op = "update_extend_failing" -> {Out(St(ps \o SubSeq(o.arg, 1, i)), Err("RuntimeError")) : i \in 0..o.d}
    [] o.op = "setitem"  -> {Out(St(SetItem(ps, k, o.v)), Ok(<<>>))}
    [] o.op = "delitem"  -> IF HasK(ps, k) THEN {Out(St(DropKey(ps, k)), Ok(<<>>))}
                            ELSE {Out(St(ps), Err("KeyError"))}
    [] o.op \in {"update", "ior"} -> {Out(St(Update(ps, o.arg)), Ok(<<>>))}
    [] o.op = "update_extend" -> {Out(St(Extend(ps, o.arg)), Ok(<<>>))}
    [] o.op = "update_self" -> {Out(St(ps), Ok(<<>>))}
    [] o.op = "update_extend_self" -> {Out(St(ps \o PairsF(ps)), Ok(<<>>))}
    (* OMD(arg, **kw): extend with the positional argument, then update with kw (here o.vs as keys 1..) *)
    [] o.op = "ctor"     -> {Out(St(o.arg), Ok(<<>>))}
    [] o.op = "setdefault" ->
         IF HasK(ps, k) THEN {Out(St(ps), Ok(<<LastV(ps, k)>>))}
         ELSE {Out(St(Append(ps, P(k, Dflt(o.d)))), Ok(<<Dflt(o.d)>>))}
    [] o.op = "pop" ->
         IF HasK(ps, k) THEN {Out(St(DropKey(ps, k)), Ok(<<LastV(ps, k)>>))}
         ELSE IF o.d = -1 THEN {Out(St(ps), Err("KeyError"))} ELSE {Out(St(ps), Ok(<<o.d>>))}
    [] o.op = "popall" ->
         IF HasK(ps, k) THEN {Out(St(DropKey(ps, k)), Ok(ValsOf(ps, k)))}
         ELSE IF o.d = -1 THEN {Out(St(ps), Err("KeyError"))} ELSE {Out(St(ps), Ok(<<o.d>>))}
    (* poplast(k): the most recent pair of k; poplast(): the most recent pair overall (k = 0) *)
    [] o.op = "poplast" ->
         IF k = 0 THEN
            IF ps = <<>> THEN (IF o.d = -1 THEN {Out(St(ps), Err("KeyError"))} ELSE {Out(St(ps), Ok(<<o.d>>))})
            ELSE {Out(St(Front(ps)), Ok(<<Last(ps).v>>))}
         ELSE IF HasK(ps, k) THEN {Out(St(RemoveAt(ps, LastIdx(ps, k))), Ok(<<LastV(ps, k)>>))}
         ELSE IF o.d = -1 THEN {Out(St(ps), Err("KeyError"))} ELSE {Out(St(ps), Ok(<<o.d>>))}
    (* popitem: on the pair list the victim is the most recent pair - its key and value are returned; whether the key's *)
    (* older pairs go with it (as pop does) or stay is left open                                                        *)
    [] o.op = "popitem" ->
         IF ps = <<>> THEN {Out(St(ps), Err("KeyError"))}
         ELSE {Out(St(DropKey(ps, Last(ps).k)), Ok(<<Last(ps).k, Last(ps).v>>)),
               Out(St(Front(ps)), Ok(<<Last(ps).k, Last(ps).v>>))}
    [] o.op = "clear"    -> {Out(St(<<>>), Ok(<<>>))}
    (* copies (copy(), copy.copy, copy.deepcopy, pickle round trip): equal to the source; *)
    (* the harness continues on the copy and re-observes the source afterwards            *)
    [] o.op = "copy"     -> {Out(St(ps), Ok(<<>>))}
    (* derived objects: the harness switches to the returned OMD *)
    [] o.op = "to_sorted"       -> IF Comparable(ps) THEN {Out(Term(Sorted(ps)), Ok(<<>>))} ELSE {}
    [] o.op = "to_sorted_rev"   -> IF Comparable(ps) THEN {Out(Term(Rev(Sorted(ps))), Ok(<<>>))} ELSE {}
    [] o.op = "to_sortedvalues" -> IF Comparable(ps) THEN {Out(Term(SortedValues(ps)), Ok(<<>>))} ELSE {}
    [] o.op = "to_inverted"     -> {Out(Term(Inverted(ps)), Ok(<<>>))}
    [] o.op = "to_counts"       -> {Out(Term(Counts(ps)), Ok(<<>>))}
    [] o.op = "fromkeys"        -> {Out(Term([i \in 1..Len(o.vs) |-> P(o.vs[i], Dflt(o.d))]), Ok(<<>>))}
    [] OTHER -> {}

(* ----- every read the property lists, in JSON-canonical form (sequences only) ----- *)
Opt(b, v) == IF b THEN <<v>> ELSE <<>>
Obs(st, U) ==
  LET ps == st.ps IN
  [ items_t |-> ItemsT(ps), items_f |-> ItemsF(ps),
    keys_t |-> KeysT(ps), keys_f |-> KeysF(ps),
    values_t |-> ValsT(ps), values_f |-> ValsF(ps),
    len |-> Len(KeysF(ps)), iter |-> KeysF(ps), reversed |-> Rev(KeysF(ps)),
    (* per-key reads for every atom 0..U (index a+1) *)
    getlist |-> [i \in 1..U+1 |-> ValsOf(ps, i-1)],
    get |-> [i \in 1..U+1 |-> Opt(HasK(ps, i-1), IF HasK(ps, i-1) THEN LastV(ps, i-1) ELSE 0)],
    contains |-> [i \in 1..U+1 |-> HasK(ps, i-1)],
    (* plain dicts: compared in key order, their own order carries no meaning *)
    todict_f |-> SortSeq(ItemsF(ps), LAMBDA a, b : a[1] < b[1]),
    todict_t |-> LET kf == SortSeq(KeysF(ps), <) IN [i \in 1..Len(kf) |-> <<kf[i], ValsOf(ps, kf[i])>>],
    counts |-> ItemsT(Counts(ps)),
    inverted |-> ItemsT(Inverted(ps)),
    (* Python cannot order None: not judged (marker) when a None key or value is present *)
    sorted |-> IF Comparable(ps) THEN ItemsT(Sorted(ps)) ELSE << <<-1, -1>> >>,
    sortedvalues |-> IF Comparable(ps) THEN ItemsT(SortedValues(ps)) ELSE << <<-1, -1>> >>,
    sorted_rev |-> IF Comparable(ps) THEN ItemsT(Rev(Sorted(ps))) ELSE << <<-1, -1>> >>,              \* sorted(reverse=True)
    sorted_byval |-> IF Comparable(ps) THEN ItemsT(SortedByVal(ps)) ELSE << <<-1, -1>> >>,            \* sorted(key=lambda item: item[1])
    sortedvalues_rev |-> IF Comparable(ps) THEN ItemsT(SortedValuesRev(ps)) ELSE << <<-1, -1>> >>,    \* sortedvalues(reverse=True)
    (* equality: with an OMD of the same pairs, the same pairs reordered, a mapping with the   *)
    (* same visible values, one differing value, a missing / an extra key, a non-mapping       *)
    (* ... and with OMDs that differ by one pair: one more pair of an existing key appended,   *)
    (* the last pair dropped, the first pair's value changed                                   *)
    eq |-> [same_omd |-> TRUE, reordered_omd |-> (Len(ps) < 2 \/ Rev(ps) = ps),
            plus_one_omd |-> FALSE, plus_dup_last_omd |-> (ps = <<>>),        \* (the last pair once more)
            minus_one_omd |-> (ps = <<>>), diffval_omd |-> (ps = <<>>),
            same_dict |-> TRUE, diffval_dict |-> (ps = <<>>), missing_key_dict |-> (ps = <<>>),
            renamed_key_dict |-> FALSE,      \* a mapping of the same size in which one key (each in turn) has another name
            extra_key_dict |-> FALSE, non_mapping |-> FALSE],
    wf |-> TRUE ]

(* ----- the property's consistency clauses, as a predicate on observations ----- *)
Consistent(st, U) ==
  LET o == Obs(st, U)  ps == st.ps IN
  /\ o.keys_f = Dedup(o.keys_t, {})
  /\ o.len = Len(o.keys_f)
  /\ o.reversed = Rev(o.iter)
  /\ \A a \in 1..U+1 : /\ o.get[a] = (IF o.getlist[a] = <<>> THEN <<>> ELSE <<Last(o.getlist[a])>>)
                       /\ o.contains[a] <=> (o.getlist[a] # <<>>)
  /\ \A i \in 1..Len(o.todict_t) : o.todict_t[i][1] \in 0..U => o.todict_t[i][2] = o.getlist[o.todict_t[i][1] + 1]
  /\ [i \in 1..Len(o.items_t) |-> P(o.items_t[i][1], o.items_t[i][2])] = ps
  /\ Inverted(Inverted(ps)) = ps
  /\ Len(SortedValues(ps)) = Len(ps) /\ KeysT(SortedValues(ps)) = KeysT(ps)
=============================================================================
