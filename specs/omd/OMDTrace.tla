------------------------------ MODULE OMDTrace ------------------------------
(* Validates traces recorded from real OrderedMultiDict objects against    *)
(* OMD.tla: each event is one public call logged at its return with the    *)
(* result and the complete read battery (same JSON shape as OMD!Obs).      *)
EXTENDS OMD, TLC, Json, IOUtils

Traces == JsonDeserialize(IOEnv.TRACE_FILE)
VARIABLES tid, l, st
vars == <<tid, l, st>>

Match(o, ev, U) ==
    /\ o.r = ev.r
    /\ Obs(o.s, U) = ev.obs
    /\ \A i \in 1..Len(ev.also_t) : ev.also_t[i] = Obs(o.s, U)

Init == tid \in 1..Len(Traces) /\ l = 1 /\ st = St(<<>>)
Step ==
    /\ l >= 1 /\ l <= Len(Traces[tid].ev)
    /\ LET ev == Traces[tid].ev[l]
           U == Traces[tid].U
           cand == Outcomes([st EXCEPT !.term = FALSE], ev.op)
           ms == {o \in cand : Match(o, ev, U)} IN
       IF ms # {}
       THEN \E o \in ms : st' = o.s /\ l' = l + 1 /\ tid' = tid
       ELSE /\ PrintT(<<"REJECT", ToJson([tid |-> tid, l |-> l, st |-> st,
                        exp |-> {[r |-> o.r, obs |-> Obs(o.s, U)] : o \in cand}])>>)
            /\ l' = 0 /\ UNCHANGED <<tid, st>>
Spec == Init /\ [][Step]_vars
Accept == (l = Len(Traces[tid].ev) + 1) => PrintT(<<"ACCEPT", tid>>)
=============================================================================
