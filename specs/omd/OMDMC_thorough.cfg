SPECIFICATION Spec
CONSTANTS K = 3  L = 4  U = 4
VIEW Vw
INVARIANT InvConsistent
PROPERTY ActTotal
PROPERTY ActReplace
PROPERTY ActAppend
PROPERTY ActUpdateKeepsArg
CHECK_DEADLOCK FALSE
