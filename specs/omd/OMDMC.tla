------------------------------- MODULE OMDMC -------------------------------
(* Bounded model of OMD: consistency clauses checked by TLC, graph export. *)
EXTENDS OMD, TLC, Json
CONSTANTS K, L, U      \* keys 1..K, pair lists of length <= L, read universe 1..U

Keys == 1..K
RECURSIVE KSeqs(_)
KSeqs(n) == IF n = 0 THEN {<<>>}
            ELSE LET s == KSeqs(n - 1) IN s \cup {Append(x, k) : x \in {y \in s : Len(y) = n - 1}, k \in Keys}
(* arguments: key sequences of length <= 2, the i-th pair carries value i *)
Args == {[i \in 1..Len(ks) |-> P(ks[i], i)] : ks \in KSeqs(2)}
ValSeqs == {<<>>, <<1>>, <<2, 1>>}

Ops == {Op("add", k, v, 0, <<>>, <<>>) : k \in Keys, v \in 1..2}
  \cup {Op("setitem", k, v, 0, <<>>, <<>>) : k \in Keys, v \in 1..2}
  \cup {Op("addlist", k, 0, 0, <<>>, vs) : k \in Keys, vs \in ValSeqs}
  \cup {Op("delitem", k, 0, 0, <<>>, <<>>) : k \in Keys}
  \cup {Op(n, 0, 0, 0, a, <<>>) : n \in {"update", "ior", "update_extend", "ctor"}, a \in Args}
  \cup {Op("setdefault", k, 0, d, <<>>, <<>>) : k \in Keys, d \in {-1, 2}}
  \cup {Op(n, k, 0, d, <<>>, <<>>) : n \in {"pop", "popall"}, k \in Keys, d \in {-1, 0}}
  \cup {Op("poplast", k, 0, d, <<>>, <<>>) : k \in Keys \cup {0}, d \in {-1, 0}}
  \cup {Op(n, 0, 0, 0, <<>>, <<>>) : n \in {"popitem", "clear", "copy", "update_self", "update_extend_self",
                                           "to_sorted", "to_sorted_rev", "to_sortedvalues", "to_inverted", "to_counts"}}
  \cup {Op("fromkeys", 0, 0, d, <<>>, ks) : ks \in KSeqs(2), d \in {-1, 1}}

VARIABLES st, last
vars == <<st, last>>
Init == st = St(<<>>) /\ last = [op |-> Op("init", 0, 0, 0, <<>>, <<>>), o |-> Out(St(<<>>), Ok(<<>>))]
Next == /\ ~st.term
        /\ \E o \in Ops : \E out \in Outcomes(st, o) :
              /\ Len(out.s.ps) <= L
              /\ st' = out.s
              /\ last' = [op |-> o, o |-> out]
Spec == Init /\ [][Next]_vars
Vw == st

InvConsistent == Consistent(st, U)
ActTotal == [][~st.term => \A o \in Ops : (Outcomes(st, o) # {} \/ (~Comparable(st.ps) /\ o.op \in {"to_sorted", "to_sorted_rev", "to_sortedvalues"}))]_vars
(* assignment / update replace all of a key's pairs, add / extend append *)
ActReplace == [][(last'.op.op = "setitem") => ValsOf(st'.ps, last'.op.k) = <<last'.op.v>>]_vars
ActAppend == [][(last'.op.op \in {"add", "addlist", "update_extend"}) => IsPrefix(st.ps, st'.ps)]_vars
ActUpdateKeepsArg == [][(last'.op.op \in {"update", "ior"}) => IsSuffix(last'.op.arg, st'.ps)]_vars

EmitI == (last.op.op = "init") => PrintT(<<"I", ToJson(st)>>)
EmitS == PrintT(<<"S", ToJson([s |-> st, obs |-> Obs(st, U)])>>)
EmitE == PrintT(<<"E", ToJson([f |-> st, op |-> last'.op, o |-> last'.o, t |-> st'])>>)
=============================================================================
