----------------------------- MODULE CacheTrace -----------------------------
(* Validates traces recorded from the real LRI/LRU against Cache.tla.      *)
(* TRACE_FILE: JSON array of [cfg, ev]; every event is one public call     *)
(* logged at its return with result, counter deltas, on_miss calls and the *)
(* contents read back; the last event is the behavioural order probe.      *)
(* Every trace gets a verdict: ACCEPT tid, or REJECT with the event index, *)
(* the specification state and the outcomes the specification admits.      *)
EXTENDS Cache, TLC, Json, IOUtils

Traces == JsonDeserialize(IOEnv.TRACE_FILE)

VARIABLES tid, l, st, frozen
vars == <<tid, l, st, frozen>>

SeqSet(s) == {s[i] : i \in 1..Len(s)}
ItemSet(it) == {<<it[i].k, it[i].v>> : i \in 1..Len(it)}

Match(o, ev) ==
    /\ o.r = ev.r
    /\ o.dh = ev.dh /\ o.dm = ev.dm /\ o.ds = ev.ds
    /\ o.calls = ev.calls
    /\ ItemSet(o.s.it) = SeqSet(ev.items)
    /\ Len(o.s.it) = ev.len
    /\ Len(o.s.it) <= o.s.c.m
    /\ ("copy_ok" \in DOMAIN ev) =>
          /\ ev.copy_ok
          /\ SeqSet(ev.copy_items) = ItemSet(o.s.it)
          /\ ev.copy_order = KeySeq(o.s.it)

Init == /\ tid \in 1..Len(Traces)
        /\ l = 1
        /\ st = [c |-> Traces[tid].cfg, it |-> <<>>]
        /\ frozen = <<>>

(* A copy event marked "fork" leaves a second cache behind (the copy, or the source when the history goes on with the *)
(* copy): frozen remembers the contents it had; the "twin_probe" event near the end reads that second cache back -    *)
(* items and complete eviction order - after everything that happened to the other one.                             *)
Step ==
    /\ l >= 1 /\ l <= Len(Traces[tid].ev)
    /\ LET ev == Traces[tid].ev[l] IN
       IF ev.op.op = "probe"
       THEN IF ev.order = KeySeq(st.it)
            THEN l' = l + 1 /\ UNCHANGED <<tid, st, frozen>>
            ELSE /\ PrintT(<<"REJECT", ToJson([tid |-> tid, l |-> l, st |-> st, exp |-> {[order |-> KeySeq(st.it)]}])>>)
                 /\ l' = 0 /\ UNCHANGED <<tid, st, frozen>>
       ELSE IF ev.op.op = "twin_probe"
       THEN IF ev.order = KeySeq(frozen) /\ SeqSet(ev.items) = ItemSet(frozen)
            THEN l' = l + 1 /\ UNCHANGED <<tid, st, frozen>>
            ELSE /\ PrintT(<<"REJECT", ToJson([tid |-> tid, l |-> l, st |-> st, exp |-> {[second_cache |-> frozen]}])>>)
                 /\ l' = 0 /\ UNCHANGED <<tid, st, frozen>>
       ELSE LET ms == {o \in Outcomes(st, ev.op) : Match(o, ev)} IN
            IF ms # {}
            THEN \E o \in ms : /\ st' = o.s /\ l' = l + 1 /\ tid' = tid
                                /\ frozen' = (IF "fork" \in DOMAIN ev THEN o.s.it ELSE frozen)
            ELSE /\ PrintT(<<"REJECT", ToJson([tid |-> tid, l |-> l, st |-> st, exp |-> Outcomes(st, ev.op)])>>)
                 /\ l' = 0 /\ UNCHANGED <<tid, st, frozen>>

Spec == Init /\ [][Step]_vars
Accept == (l = Len(Traces[tid].ev) + 1) => PrintT(<<"ACCEPT", tid>>)
=============================================================================
