------------------------------- MODULE Cache -------------------------------
(***************************************************************************)
(* Reference semantics of boltons.cacheutils.LRI / LRU (property C02).     *)
(*                                                                         *)
(* Functional core, no variables: the same text serves exhaustive model    *)
(* checking (CacheMC), export of the labelled state graph that is then     *)
(* executed transition by transition on the real classes, validation of    *)
(* traces recorded from the real classes (CacheTrace) and the atomic       *)
(* reference of the concurrency spec (CacheLin, C03).                      *)
(*                                                                         *)
(* Abstract atoms are integers: keys 1..K, values >= 1, 0 stands for       *)
(* Python's None, -1 for "argument not given".                             *)
(*                                                                         *)
(* State  [c |-> [m, lru, om], it |-> items]                               *)
(*   items : sequence of [k, v], OLDEST FIRST (eviction victim = Head)     *)
(*   c.m   : max_size, c.lru : LRU (lookups refresh) or LRI                *)
(*   c.om  : 0 no on_miss; 1 on_miss(k) = 10+k;                            *)
(*           2 on_miss(k) first stores cache[1] = 7, then returns 10+k     *)
(***************************************************************************)
EXTENDS Naturals, Integers, Sequences, FiniteSets

Pair(k, v) == [k |-> k, v |-> v]
KeysOf(it) == {it[i].k : i \in 1..Len(it)}
KeySeq(it) == [i \in 1..Len(it) |-> it[i].k]
Has(it, k) == k \in KeysOf(it)
Pos(it, k) == CHOOSE i \in 1..Len(it) : it[i].k = k
ValOf(it, k) == it[Pos(it, k)].v
Drop(it, k) == SelectSeq(it, LAMBDA e : e.k # k)

(* insertion or assignment: refresh an existing key, else append, evicting *)
(* the oldest entry when the cache is full                                 *)
Put(c, it, k, v) ==
    IF Has(it, k) THEN Append(Drop(it, k), Pair(k, v))
    ELSE IF Len(it) < c.m THEN Append(it, Pair(k, v))
    ELSE Append(Tail(it), Pair(k, v))

RECURSIVE PutAll(_, _, _)
PutAll(c, it, ps) == IF ps = <<>> THEN it
                     ELSE PutAll(c, Put(c, it, Head(ps).k, Head(ps).v), Tail(ps))

(* a successful lookup refreshes the key in an LRU only *)
Touch(c, it, k) == IF c.lru THEN Append(Drop(it, k), Pair(k, ValOf(it, k))) ELSE it

OMV(k) == 10 + k
OnMissStore(c, it, k) ==
    LET it1 == IF c.om = 2 THEN Put(c, it, 1, 7) ELSE it
    IN  Put(c, it1, k, OMV(k))

Ok(v)  == [e |-> "ok", v |-> v]
Err(n) == [e |-> n, v |-> <<>>]

(* outcome: next state, result, counter deltas, keys on_miss was called with *)
Out(c, it, r, dh, dm, ds, calls) ==
    [s |-> [c |-> c, it |-> it], r |-> r, dh |-> dh, dm |-> dm, ds |-> ds, calls |-> calls]

(* op records always carry: op, k, v, d, arg (sequence of pairs) *)
Op(name, k, v, d, arg) == [op |-> name, k |-> k, v |-> v, d |-> d, arg |-> arg]

Outcomes(st, o) ==
  LET c == st.c  it == st.it  k == o.k IN
  CASE o.op = "getitem" ->
         IF Has(it, k) THEN {Out(c, Touch(c, it, k), Ok(<<ValOf(it, k)>>), 1, 0, 0, <<>>)}
         ELSE IF c.om = 0 THEN {Out(c, it, Err("KeyError"), 0, 1, 0, <<>>)}
         ELSE {Out(c, OnMissStore(c, it, k), Ok(<<OMV(k)>>), 0, 1, 0, <<k>>)}
    [] o.op = "get" ->
         IF Has(it, k) THEN {Out(c, Touch(c, it, k), Ok(<<ValOf(it, k)>>), 1, 0, 0, <<>>)}
         ELSE IF c.om = 0 THEN {Out(c, it, Ok(<<o.d>>), 0, 1, 1, <<>>)}
         ELSE {Out(c, OnMissStore(c, it, k), Ok(<<OMV(k)>>), 0, 1, 0, <<k>>)}
    [] o.op = "setdefault" ->
         IF Has(it, k) THEN {Out(c, Touch(c, it, k), Ok(<<ValOf(it, k)>>), 1, 0, 0, <<>>)}
         ELSE IF c.om = 0 THEN {Out(c, Put(c, it, k, o.d), Ok(<<o.d>>), 0, 1, 1, <<>>)}
         ELSE {Out(c, OnMissStore(c, it, k), Ok(<<OMV(k)>>), 0, 1, 0, <<k>>)}
    [] o.op = "setitem" -> {Out(c, Put(c, it, k, o.v), Ok(<<>>), 0, 0, 0, <<>>)}
    [] o.op = "delitem" ->
         IF Has(it, k) THEN {Out(c, Drop(it, k), Ok(<<>>), 0, 0, 0, <<>>)}
         ELSE {Out(c, it, Err("KeyError"), 0, 0, 0, <<>>)}
    [] o.op = "pop" ->
         IF Has(it, k) THEN {Out(c, Drop(it, k), Ok(<<ValOf(it, k)>>), 0, 0, 0, <<>>)}
         ELSE IF o.d = -1 THEN {Out(c, it, Err("KeyError"), 0, 0, 0, <<>>)}
         ELSE {Out(c, it, Ok(<<o.d>>), 0, 0, 0, <<>>)}
    [] o.op = "popitem" ->
         IF it = <<>> THEN {Out(c, it, Err("KeyError"), 0, 0, 0, <<>>)}
         ELSE {Out(c, Drop(it, it[i].k), Ok(<<it[i].k, it[i].v>>), 0, 0, 0, <<>>) : i \in 1..Len(it)}
    [] o.op = "clear"  -> {Out(c, <<>>, Ok(<<>>), 0, 0, 0, <<>>)}
    [] o.op \in {"update", "ior"} -> {Out(c, PutAll(c, it, o.arg), Ok(<<>>), 0, 0, 0, <<>>)}
    [] o.op = "update_self" -> {Out(c, it, Ok(<<>>), 0, 0, 0, <<>>)}
    [] o.op = "ctor"   -> {Out(c, PutAll(c, <<>>, o.arg), Ok(<<>>), 0, 0, 0, <<>>)}
    (* copy(): the source is unchanged; the harness checks the copy against *)
    (* the same state (contents, capacity, order) and then independence     *)
    [] o.op = "copy"   -> {Out(c, it, Ok(<<>>), 0, 0, 0, <<>>)}
    (* pure reads: must change nothing, not even recency *)
    [] o.op = "contains" -> {Out(c, it, Ok(<<IF Has(it, k) THEN 1 ELSE 0>>), 0, 0, 0, <<>>)}
    [] o.op = "len"    -> {Out(c, it, Ok(<<Len(it)>>), 0, 0, 0, <<>>)}
    [] OTHER -> {}

(* everything a caller can read without touching recency *)
Obs(st) == [len |-> Len(st.it), keys |-> KeysOf(st.it), order |-> KeySeq(st.it),
            items |-> {<<st.it[i].k, st.it[i].v>> : i \in 1..Len(st.it)}, m |-> st.c.m]

(* -------- the property's clauses, as predicates on states / outcomes -------- *)
Injective(it) == \A i, j \in 1..Len(it) : it[i].k = it[j].k => i = j
WithinCapacity(st) == Len(st.it) <= st.c.m
WellFormed(st) == Injective(st.it) /\ WithinCapacity(st)

(* an eviction removes exactly the oldest key, and only when the cache is full *)
EvictionIsOldest(st, o, out) ==
    LET gone == KeysOf(st.it) \ KeysOf(out.s.it) IN
    (o.op \in {"setitem", "setdefault", "getitem", "get"} /\ st.c.om # 2) =>
        /\ Cardinality(gone) <= 1
        /\ gone # {} => /\ Len(st.it) = st.c.m
                        /\ gone = {Head(st.it).k}
SoftLeMiss(out) == out.ds <= out.dm
OnMissExactlyOnAbsent(st, o, out) ==
    (out.calls # <<>>) <=> (o.op \in {"getitem", "get", "setdefault"} /\ ~Has(st.it, o.k) /\ st.c.om # 0)
RemovedNeverReturned(st, o, out) ==
    (o.op \in {"delitem", "pop"} /\ out.r.e = "ok") => ~Has(out.s.it, o.k)
=============================================================================
