------------------------------ MODULE CacheConc ------------------------------
(***************************************************************************)
(* Design-level model of the locking discipline of LRI / LRU (C03).        *)
(*                                                                         *)
(* The implementation keeps three structures - the dict itself (d), the    *)
(* key -> link table (lookup) and the recency ring (ring, oldest first) -  *)
(* and every method updates them in several separate steps under one       *)
(* re-entrant lock.  Here each such step is one action, so TLC interleaves *)
(* the threads between any two of them.  Checked: (1) whenever the lock is *)
(* free the three structures agree and respect max_size; (2) when all      *)
(* threads are done, every result and the final contents / order are those *)
(* of the SEQUENTIAL specification Cache.tla executed in lock-acquisition  *)
(* order (linearizability with the acquire as linearization point).        *)
(* Negative control: UseLock = FALSE must violate them.                    *)
(***************************************************************************)
EXTENDS Cache, TLC

CONSTANTS Threads, KeysC, UseLock, MaxSizes
VARIABLES cfg,        \* [m, lru, om]
          d,          \* the dict: function on its key set
          lookup,     \* keys having a link
          ring,       \* recency order, oldest first
          lock,       \* 0 or the holder
          pc, op, res, tmp,   \* per thread: program counter, operation, result, scratch (evicted key)
          order,      \* threads in lock-acquisition order (history variable)
          st0         \* initial sequential state (history variable)
vars == <<cfg, d, lookup, ring, lock, pc, op, res, tmp, order, st0>>

OpsC == {Op("setitem", k, v, 0, <<>>) : k \in KeysC, v \in {1, 2}}
   \cup {Op("getitem", k, 0, 0, <<>>) : k \in KeysC}
   \cup {Op("delitem", k, 0, 0, <<>>) : k \in KeysC}
Inits == {<<>>, <<Pair(1, 3)>>, <<Pair(1, 3), Pair(2, 4)>>, <<Pair(2, 4), Pair(1, 3)>>}

DictOf(it) == [k \in KeysOf(it) |-> ValOf(it, k)]
Init == /\ cfg \in [m : MaxSizes, lru : BOOLEAN, om : {0}]
        /\ \E i \in Inits : /\ Len(i) <= cfg.m
                            /\ d = DictOf(i) /\ lookup = KeysOf(i) /\ ring = KeySeq(i)
                            /\ st0 = [c |-> cfg, it |-> i]
        /\ lock = 0
        /\ pc = [t \in Threads |-> "start"]
        /\ op \in [Threads -> OpsC]
        /\ res = [t \in Threads |-> Ok(<<>>)]
        /\ tmp = [t \in Threads |-> 0]
        /\ order = <<>>

Goto(t, l) == pc' = [pc EXCEPT ![t] = l]
Drop1(s, k) == SelectSeq(s, LAMBDA e : e # k)

Acquire(t) == /\ pc[t] = "start"
              /\ (UseLock => lock = 0)
              /\ lock' = IF UseLock THEN t ELSE lock
              /\ order' = Append(order, t)
              /\ Goto(t, op[t].op)
              /\ UNCHANGED <<cfg, d, lookup, ring, op, res, tmp, st0>>
Release(t) == /\ pc[t] = "release"
              /\ lock' = IF UseLock THEN 0 ELSE lock
              /\ Goto(t, "done")
              /\ UNCHANGED <<cfg, d, lookup, ring, op, res, tmp, order, st0>>

(* __setitem__: link bookkeeping first (move to front | add | evict+reuse anchor), then the evicted key *)
(* leaves the dict, then the dict store *)
SetLink(t) == /\ pc[t] = "setitem"
              /\ LET k == op[t].k IN
                 IF k \in lookup
                 THEN /\ ring' = Append(Drop1(ring, k), k) /\ UNCHANGED <<lookup, tmp>> /\ Goto(t, "set_store")
                 ELSE IF Cardinality(DOMAIN d) < cfg.m
                 THEN /\ ring' = Append(ring, k) /\ lookup' = lookup \cup {k} /\ UNCHANGED tmp /\ Goto(t, "set_store")
                 ELSE IF ring = <<>>    \* only reachable without the lock: the code would raise here
                 THEN /\ UNCHANGED <<ring, lookup, tmp>> /\ Goto(t, "set_store")
                 ELSE /\ ring' = Append(Tail(ring), k)
                      /\ lookup' = (lookup \ {Head(ring)}) \cup {k}
                      /\ tmp' = [tmp EXCEPT ![t] = Head(ring)]
                      /\ Goto(t, "set_evict")
              /\ UNCHANGED <<cfg, d, lock, op, res, order, st0>>
SetEvict(t) == /\ pc[t] = "set_evict"
               /\ d' = [k \in (DOMAIN d) \ {tmp[t]} |-> d[k]]
               /\ Goto(t, "set_store")
               /\ UNCHANGED <<cfg, lookup, ring, lock, op, res, tmp, order, st0>>
SetStore(t) == /\ pc[t] = "set_store"
               /\ d' = [k \in (DOMAIN d) \cup {op[t].k} |-> IF k = op[t].k THEN op[t].v ELSE d[k]]
               /\ Goto(t, "release")
               /\ UNCHANGED <<cfg, lookup, ring, lock, op, res, tmp, order, st0>>

(* __getitem__: table lookup (LRU: splice to the front), then the value *)
GetItem(t) == /\ pc[t] = "getitem"
              /\ LET k == op[t].k IN
                 IF k \in lookup /\ k \in DOMAIN d
                 THEN /\ ring' = IF cfg.lru THEN Append(Drop1(ring, k), k) ELSE ring
                      /\ res' = [res EXCEPT ![t] = Ok(<<d[k]>>)]
                 ELSE /\ res' = [res EXCEPT ![t] = Err("KeyError")] /\ UNCHANGED ring
              /\ Goto(t, "release")
              /\ UNCHANGED <<cfg, d, lookup, lock, op, tmp, order, st0>>

(* __delitem__: dict first (KeyError if absent), then the link *)
DelDict(t) == /\ pc[t] = "delitem"
              /\ IF op[t].k \in DOMAIN d
                 THEN /\ d' = [k \in (DOMAIN d) \ {op[t].k} |-> d[k]] /\ Goto(t, "del_link") /\ UNCHANGED res
                 ELSE /\ res' = [res EXCEPT ![t] = Err("KeyError")] /\ Goto(t, "release") /\ UNCHANGED d
              /\ UNCHANGED <<cfg, lookup, ring, lock, op, tmp, order, st0>>
DelLink(t) == /\ pc[t] = "del_link"
              /\ lookup' = lookup \ {op[t].k}
              /\ ring' = Drop1(ring, op[t].k)
              /\ Goto(t, "release")
              /\ UNCHANGED <<cfg, d, lock, op, res, tmp, order, st0>>

Next == \E t \in Threads : Acquire(t) \/ Release(t) \/ SetLink(t) \/ SetEvict(t) \/ SetStore(t)
                              \/ GetItem(t) \/ DelDict(t) \/ DelLink(t)
Spec == Init /\ [][Next]_vars /\ \A t \in Threads : WF_vars(Acquire(t) \/ Release(t) \/ SetLink(t) \/ SetEvict(t)
                                                            \/ SetStore(t) \/ GetItem(t) \/ DelDict(t) \/ DelLink(t))

AllDone == \A t \in Threads : pc[t] = "done"
Idle == \A t \in Threads : pc[t] \in {"start", "done"}
(* (1) the three structures agree whenever nobody is inside a method *)
InvStructures == Idle => /\ DOMAIN d = lookup
                         /\ {ring[i] : i \in 1..Len(ring)} = lookup /\ Len(ring) = Cardinality(lookup)
                         /\ Cardinality(DOMAIN d) <= cfg.m
(* (2) results and final state = sequential execution in acquisition order *)
RECURSIVE SeqRun(_, _)
SeqRun(s, ts) == IF ts = <<>> THEN [s |-> s, rs |-> <<>>]
                 ELSE LET o == CHOOSE x \in Outcomes(s, op[Head(ts)]) : TRUE
                          rest == SeqRun(o.s, Tail(ts))
                      IN [s |-> rest.s, rs |-> <<[t |-> Head(ts), r |-> o.r]>> \o rest.rs]
InvLinearizable == AllDone =>
    LET run == SeqRun(st0, order) IN
      /\ \A i \in 1..Len(run.rs) : res[run.rs[i].t] = run.rs[i].r
      /\ KeySeq(run.s.it) = ring
      /\ DictOf(run.s.it) = d
Termination == <>AllDone
=============================================================================
