------------------------------- MODULE CacheLin -------------------------------
(***************************************************************************)
(* Linearizability of recorded multi-threaded LRI/LRU histories (C03).     *)
(*                                                                         *)
(* A history is the real-time ordered list of invocation / response events *)
(* of all threads (recorded by harness/sched.py, which runs real threads   *)
(* one bytecode at a time), followed by a sequential probe of the final    *)
(* cache: contents, length, complete eviction order, usability.            *)
(* The history is accepted iff every operation can be given ONE atomic     *)
(* effect of Cache.tla somewhere between its invocation and its response   *)
(* such that each thread gets exactly the result it got and the final      *)
(* state is the probed one.  TLC searches the linearization points.        *)
(***************************************************************************)
EXTENDS Cache, TLC, Json, IOUtils, SequencesExt

Traces == JsonDeserialize(IOEnv.TRACE_FILE)
VARIABLES tid, l, st, pend, res
vars == <<tid, l, st, pend, res>>

SortedFlat(it) == LET ks == SetToSortSeq(KeysOf(it), <) IN
                  [i \in 1..(2 * Len(ks)) |-> IF i % 2 = 1 THEN ks[(i + 1) \div 2] ELSE ValOf(it, ks[i \div 2])]
(* snapshot-style reads added to the sequential specification *)
LinOutcomes(s, o) ==
    IF o.op = "copy" THEN {[s |-> s, r |-> Ok(SortedFlat(s.it))]}
    ELSE IF o.op \in {"eq", "ne"} THEN
         (* comparison with a plain mapping (distinct keys): one look at one state *)
         LET same == /\ Len(o.arg) = Len(s.it)
                     /\ \A i \in 1..Len(o.arg) : Has(s.it, o.arg[i].k) /\ ValOf(s.it, o.arg[i].k) = o.arg[i].v
         IN {[s |-> s, r |-> Ok(<<IF (o.op = "eq") = same THEN 1 ELSE 0>>)]}
    ELSE IF o.op = "keys" THEN {[s |-> s, r |-> Ok(SetToSortSeq(KeysOf(s.it), <))]}
    ELSE {[s |-> x.s, r |-> x.r] : x \in Outcomes(s, o)}

Init == /\ tid \in 1..Len(Traces)
        /\ l = 1
        /\ st = [c |-> Traces[tid].cfg, it |-> PutAll(Traces[tid].cfg, <<>>, Traces[tid].init)]
        /\ pend = {} /\ res = {}

Consume ==
    /\ l <= Len(Traces[tid].ev)
    /\ LET ev == Traces[tid].ev[l] IN
       CASE ev.k = "inv" -> /\ pend' = pend \cup {[t |-> ev.t, op |-> ev.op]}
                            /\ l' = l + 1 /\ UNCHANGED <<tid, st, res>>
         [] ev.k = "ret" -> /\ \E x \in res : x.t = ev.t /\ x.r = ev.r /\ res' = res \ {x}
                            /\ l' = l + 1 /\ UNCHANGED <<tid, st, pend>>
         [] ev.k = "final" -> /\ pend = {} /\ res = {}
                              /\ ev.usable
                              /\ ev.len = Len(st.it) /\ ev.len <= st.c.m
                              /\ ev.items = SortedFlat(st.it)
                              /\ ev.order = KeySeq(st.it)
                              /\ l' = l + 1 /\ UNCHANGED <<tid, st, pend, res>>
Lin == \E p \in pend : \E o \in LinOutcomes(st, p.op) :
          /\ st' = o.s
          /\ pend' = pend \ {p}
          /\ res' = res \cup {[t |-> p.t, r |-> o.r]}
          /\ UNCHANGED <<tid, l>>
Spec == Init /\ [][Consume \/ Lin]_vars
Accept == (l = Len(Traces[tid].ev) + 1) => PrintT(<<"ACCEPT", tid>>)
=============================================================================
