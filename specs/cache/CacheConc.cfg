SPECIFICATION Spec
CONSTANTS Threads = {1, 2}  KeysC = {1, 2, 3}  UseLock = TRUE  MaxSizes = {1, 2}
INVARIANT InvStructures
INVARIANT InvLinearizable
PROPERTY Termination
