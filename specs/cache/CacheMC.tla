------------------------------ MODULE CacheMC ------------------------------
(* Bounded model of Cache: exhaustive check of the property clauses and    *)
(* export of the complete labelled state graph (CacheGen.cfg).             *)
EXTENDS Cache, TLC, Json
CONSTANTS K, V, Ms, Lrus, Oms, ArgLen

Keys == 1..K
Vals == 1..V
Configs == [m : Ms, lru : Lrus, om : Oms]

RECURSIVE KeySeqs(_)
KeySeqs(n) == IF n = 0 THEN {<<>>}
              ELSE LET s == KeySeqs(n - 1) IN s \cup {Append(x, k) : x \in {y \in s : Len(y) = n - 1}, k \in Keys}
(* update/ctor arguments: key sequences of length <= ArgLen, i-th pair has value i *)
Args == {[i \in 1..Len(ks) |-> Pair(ks[i], i)] : ks \in KeySeqs(ArgLen)}

Ops == {Op("getitem", k, 0, 0, <<>>) : k \in Keys}
  \cup {Op("get", k, 0, d, <<>>) : k \in Keys, d \in {0, 5}}
  \cup {Op("setdefault", k, 0, d, <<>>) : k \in Keys, d \in {0, 5}}
  \cup {Op("setitem", k, v, 0, <<>>) : k \in Keys, v \in Vals}
  \cup {Op("delitem", k, 0, 0, <<>>) : k \in Keys}
  \cup {Op("pop", k, 0, d, <<>>) : k \in Keys, d \in {-1, 0, 5}}
  \cup {Op("contains", k, 0, 0, <<>>) : k \in Keys}
  \cup {Op(n, 0, 0, 0, <<>>) : n \in {"popitem", "clear", "copy", "len", "update_self"}}
  \cup {Op(n, 0, 0, 0, a) : n \in {"update", "ior", "ctor"}, a \in Args}

VARIABLES st, last
vars == <<st, last>>
NoLast == [op |-> Op("init", 0, 0, 0, <<>>), o |-> Out(st.c, st.it, Ok(<<>>), 0, 0, 0, <<>>)]

Init == /\ st \in {[c |-> c, it |-> <<>>] : c \in Configs}
        /\ last = [op |-> Op("init", 0, 0, 0, <<>>), o |-> Out(st.c, st.it, Ok(<<>>), 0, 0, 0, <<>>)]
Next == \E o \in Ops : \E out \in Outcomes(st, o) :
            /\ st' = out.s
            /\ last' = [op |-> o, o |-> out]

Vw == st

(* ---- invariants: the clauses of C02 on the reference ---- *)
InvWellFormed == WellFormed(st)
InvConfigFixed == [][st'.c = st.c]_vars
ActEviction == [][EvictionIsOldest(st, last'.op, last'.o)]_vars
ActSoftLeMiss == [][SoftLeMiss(last'.o)]_vars
ActOnMiss == [][OnMissExactlyOnAbsent(st, last'.op, last'.o)]_vars
ActRemoved == [][RemovedNeverReturned(st, last'.op, last'.o)]_vars
ActTotal == [][\A o \in Ops : Outcomes(st, o) # {}]_vars
Spec == Init /\ [][Next]_vars

(* ---- graph export ---- *)
EmitI == (last.op.op = "init") => PrintT(<<"I", ToJson(st)>>)
EmitS == PrintT(<<"S", ToJson([s |-> st, obs |-> Obs(st)])>>)
EmitE == PrintT(<<"E", ToJson([f |-> st, op |-> last'.op, o |-> last'.o, t |-> st'])>>)
=============================================================================
