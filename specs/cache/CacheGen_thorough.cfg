INIT Init
NEXT Next
CONSTANTS K = 3  V = 2  Ms = {1, 2, 3}  Lrus = {TRUE, FALSE}  Oms = {0, 1, 2}  ArgLen = 2
VIEW Vw
INVARIANT EmitI
INVARIANT EmitS
ACTION_CONSTRAINT EmitE
CHECK_DEADLOCK FALSE
