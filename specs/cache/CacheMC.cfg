SPECIFICATION Spec
CONSTANTS K = 3  V = 2  Ms = {1, 2}  Lrus = {TRUE, FALSE}  Oms = {0, 1, 2}  ArgLen = 2
VIEW Vw
INVARIANT InvWellFormed
PROPERTY InvConfigFixed
PROPERTY ActEviction
PROPERTY ActSoftLeMiss
PROPERTY ActOnMiss
PROPERTY ActRemoved
PROPERTY ActTotal
CHECK_DEADLOCK FALSE
