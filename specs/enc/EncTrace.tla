--------------------------------- MODULE EncTrace ---------------------------------
(* Validates records produced by the real encoders (C14): one TLC state per record.            *)
(*  kind "sh"  : args, text = args2sh(args)        -> ShLex(text) = args, nothing left unquoted *)
(*  kind "cmd" : args, text = args2cmd(args)       -> CmdLex(text) = args, no open quote        *)
(*  kind "int" : members, text = format_int_list, parsed = parse_int_list(text),                *)
(*               comp = complement_int_list(text, start, end)                                   *)
(*  kind "gz"  : n = len(data), head = first 3 bytes, isize = trailer ISIZE, same = round trip  *)
EXTENDS ShLex, CmdLex, IntList, TLC, Json, IOUtils
Traces == JsonDeserialize(IOEnv.TRACE_FILE)
VARIABLES tid, l
vars == <<tid, l>>
SeqSet(s) == {s[i] : i \in 1..Len(s)}
Why(r) ==
  CASE r.kind = "sh" -> LET x == ShLex(r.text) IN
          IF x.flag THEN "sh-unquoted-special-or-open-quote" ELSE IF x.words # r.args THEN "sh-splits-differently" ELSE ""
    [] r.kind = "cmd" -> LET x == CmdLex(r.text) IN
          IF x.open THEN "cmd-open-quote" ELSE IF x.args # r.args THEN "cmd-splits-differently" ELSE ""
    [] r.kind = "int" -> LET S == SeqSet(r.members) IN
          IF r.text # Format(S) THEN "int-format-not-canonical"
          ELSE IF r.parsed # Sorted(S) THEN "int-parse-of-format"
          ELSE IF r.comp # Complement(S, r.start, r.end) THEN "int-complement" ELSE ""
    [] r.kind = "gz" ->
          IF r.head # <<31, 139, 8>> THEN "gz-header" ELSE IF r.isize # r.n THEN "gz-isize" ELSE IF ~r.same THEN "gz-roundtrip" ELSE ""
    [] OTHER -> "unknown-kind"
Expect(r) == CASE r.kind = "sh" -> [words |-> ShLex(r.text).words] [] r.kind = "cmd" -> [words |-> CmdLex(r.text).args]
               [] r.kind = "int" -> [words |-> <<Format(SeqSet(r.members)), Complement(SeqSet(r.members), r.start, r.end)>>] [] OTHER -> [words |-> <<>>]
Init == tid \in 1..Len(Traces) /\ l = 1
Step == /\ l = 1
        /\ LET w == Why(Traces[tid]) IN
           IF w = "" THEN l' = 2 /\ tid' = tid
           ELSE /\ PrintT(<<"REJECT", ToJson([tid |-> tid, l |-> 1, st |-> [why |-> w], exp |-> {Expect(Traces[tid])}])>>)
                /\ l' = 0 /\ tid' = tid
Spec == Init /\ [][Step]_vars
Accept == (l = 2) => PrintT(<<"ACCEPT", tid>>)
=============================================================================
