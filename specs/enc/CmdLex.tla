--------------------------------- MODULE CmdLex ---------------------------------
(***************************************************************************)
(* Microsoft C runtime command-line parsing (C14): how the text produced   *)
(* by strutils.args2cmd is split into argv.  Arguments are delimited by    *)
(* space / tab outside quotes; 2n backslashes before a quote give n        *)
(* backslashes and the quote toggles quoting; 2n+1 give n backslashes and  *)
(* a literal quote; backslashes elsewhere are literal; inside quotes a     *)
(* doubled quote is a literal quote.                                       *)
(***************************************************************************)
EXTENDS Naturals, Integers, Sequences, FiniteSets
CSP == 32  CTAB == 9  CDQ == 34  CBS == 92
Rep(n) == [i \in 1..n |-> CBS]
RECURSIVE CountBS(_, _)
CountBS(t, i) == IF i <= Len(t) /\ t[i] = CBS THEN 1 + CountBS(t, i + 1) ELSE 0
EndArg(args, cur, inarg) == IF inarg THEN Append(args, cur) ELSE args
RECURSIVE CLex(_, _, _, _, _, _)
CLex(t, i, quoted, cur, inarg, args) ==
  IF i > Len(t) THEN [args |-> EndArg(args, cur, inarg), open |-> quoted]
  ELSE LET c == t[i] IN
  IF c = CBS THEN
      LET n == CountBS(t, i)  j == i + n IN
      IF j <= Len(t) /\ t[j] = CDQ
      THEN IF n % 2 = 0 THEN CLex(t, j, quoted, cur \o Rep(n \div 2), TRUE, args)          \* the quote is handled next
           ELSE CLex(t, j + 1, quoted, (cur \o Rep(n \div 2)) \o <<CDQ>>, TRUE, args)
      ELSE CLex(t, j, quoted, cur \o Rep(n), TRUE, args)
  ELSE IF c = CDQ THEN
      IF quoted /\ i < Len(t) /\ t[i + 1] = CDQ THEN CLex(t, i + 2, TRUE, Append(cur, CDQ), TRUE, args)
      ELSE CLex(t, i + 1, ~quoted, cur, TRUE, args)
  ELSE IF c \in {CSP, CTAB} /\ ~quoted THEN CLex(t, i + 1, FALSE, <<>>, FALSE, EndArg(args, cur, inarg))
  ELSE CLex(t, i + 1, quoted, Append(cur, c), TRUE, args)
CmdLex(t) == CLex(t, 1, FALSE, <<>>, FALSE, <<>>)
=============================================================================
