--------------------------------- MODULE IntList ---------------------------------
(* format_int_list / parse_int_list / complement_int_list (C14) on finite sets of naturals. *)
EXTENDS Naturals, Integers, Sequences, FiniteSets, SequencesExt
RECURSIVE Digits(_)
Digits(n) == IF n < 10 THEN <<48 + n>> ELSE Digits(n \div 10) \o <<48 + (n % 10)>>
(* maximal runs of consecutive members, in increasing order, as <<lo, hi>> *)
Runs(S) == LET los == {x \in S : x - 1 \notin S}
               hi(lo) == CHOOSE h \in S : h >= lo /\ (\A y \in lo..h : y \in S) /\ h + 1 \notin S
           IN [i \in 1..Cardinality(los) |-> LET lo == SetToSortSeq(los, <)[i] IN <<lo, hi(lo)>>]
RunText(r) == IF r[1] = r[2] THEN Digits(r[1]) ELSE Digits(r[1]) \o <<45>> \o Digits(r[2])
RECURSIVE JoinComma(_)
JoinComma(rs) == IF rs = <<>> THEN <<>> ELSE IF Len(rs) = 1 THEN RunText(rs[1]) ELSE RunText(rs[1]) \o <<44>> \o JoinComma(Tail(rs))
Format(S) == JoinComma(Runs(S))
Complement(S, start, end) == Format({x \in start..(end - 1) : x \notin S})
Sorted(S) == SetToSortSeq(S, <)
=============================================================================
