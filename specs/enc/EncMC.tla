--------------------------------- MODULE EncMC ---------------------------------
(* Laws of the integer-list encoding on every subset of 0..N, checked by TLC on the reference. *)
EXTENDS IntList, TLC
CONSTANTS N
VARIABLES S, a, b
Init == S \in SUBSET (0..N) /\ a \in 0..3 /\ b \in 0..(N + 2)
Next == UNCHANGED <<S, a, b>>
Spec == Init /\ [][Next]_<<S, a, b>>
LawRunsMaximal == LET r == Runs(S) IN
    /\ UNION {r[i][1]..r[i][2] : i \in 1..Len(r)} = S
    /\ \A i \in 1..(Len(r) - 1) : r[i][2] + 1 < r[i + 1][1]
LawComplement == LET c == {x \in a..(b - 1) : x \notin S} IN Complement(S, a, b) = Format(c) /\ c \cap S = {}
=============================================================================
