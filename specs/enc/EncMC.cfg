SPECIFICATION Spec
CONSTANTS N = 9
INVARIANT LawRunsMaximal
INVARIANT LawComplement
CHECK_DEADLOCK FALSE
