--------------------------------- MODULE ShLex ---------------------------------
(***************************************************************************)
(* POSIX shell tokenisation of an argument text (C14): how /bin/sh splits  *)
(* the text produced by strutils.args2sh into words, and whether any       *)
(* character would be expanded or act as an operator.  Text = sequence of  *)
(* character codes.  Result [words, flag]; flag = TRUE when something is   *)
(* left unquoted that the shell would interpret ($ ` * ? [ ; & | < > ( )   *)
(* anywhere, ~ or # at the start of a word, a newline) or a quote is left  *)
(* open.                                                                   *)
(***************************************************************************)
EXTENDS Naturals, Integers, Sequences, FiniteSets

SP == 32  TAB == 9  NL == 10  SQ == 39  DQ == 34  BS == 92  DOLLAR == 36  BT == 96
Special == {DOLLAR, BT, 42, 63, 91, 59, 38, 124, 60, 62, 40, 41}
WordStartSpecial == {126, 35}
EndWord(words, cur, inword) == IF inword THEN Append(words, cur) ELSE words

RECURSIVE Lex(_, _, _, _, _, _, _)
Lex(t, i, mode, cur, inword, words, flag) ==
  IF i > Len(t) THEN [words |-> EndWord(words, cur, inword), flag |-> flag \/ mode # "n"]
  ELSE LET c == t[i] IN
  IF mode = "s" THEN
      IF c = SQ THEN Lex(t, i + 1, "n", cur, TRUE, words, flag) ELSE Lex(t, i + 1, "s", Append(cur, c), TRUE, words, flag)
  ELSE IF mode = "d" THEN
      IF c = DQ THEN Lex(t, i + 1, "n", cur, TRUE, words, flag)
      ELSE IF c = BS /\ i < Len(t) /\ t[i + 1] \in {DOLLAR, BT, DQ, BS, NL}
           THEN Lex(t, i + 2, "d", IF t[i + 1] = NL THEN cur ELSE Append(cur, t[i + 1]), TRUE, words, flag)
      ELSE Lex(t, i + 1, "d", Append(cur, c), TRUE, words, flag \/ c \in {DOLLAR, BT})
  ELSE
      IF c \in {SP, TAB} THEN Lex(t, i + 1, "n", <<>>, FALSE, EndWord(words, cur, inword), flag)
      ELSE IF c = NL THEN Lex(t, i + 1, "n", <<>>, FALSE, EndWord(words, cur, inword), TRUE)
      ELSE IF c = SQ THEN Lex(t, i + 1, "s", cur, TRUE, words, flag)
      ELSE IF c = DQ THEN Lex(t, i + 1, "d", cur, TRUE, words, flag)
      ELSE IF c = BS THEN
           IF i = Len(t) THEN Lex(t, i + 1, "n", Append(cur, c), TRUE, words, flag)
           ELSE IF t[i + 1] = NL THEN Lex(t, i + 2, "n", cur, inword, words, flag)
           ELSE Lex(t, i + 2, "n", Append(cur, t[i + 1]), TRUE, words, flag)
      ELSE Lex(t, i + 1, "n", Append(cur, c), TRUE, words,
               flag \/ c \in Special \/ (c \in WordStartSpecial /\ ~inword))
ShLex(t) == Lex(t, 1, "n", <<>>, FALSE, <<>>, FALSE)
=============================================================================
