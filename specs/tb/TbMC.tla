---------------------------------- MODULE TbMC ----------------------------------
EXTENDS TbText, CallChain, TLC, Json
CONSTANTS MaxFrames, MaxDepth
VARIABLES kind, tb, prog, exc
vars == <<kind, tb, prog, exc>>
FrameSet == [path : 1..5, lineno : {1, 42}, func : 1..5, src : 0..2, rep : {0}] \cup [path : {1}, lineno : {42}, func : 1..2, src : 0..2, rep : {1, 7}]
FrameSmall == [path : {1, 2}, lineno : {7}, func : {1, 2}, src : 0..2, rep : {0}] \cup [path : {1}, lineno : {7}, func : {1}, src : {1, 2}, rep : {2}]
RECURSIVE SeqsOf(_, _)
SeqsOf(A, n) == IF n = 0 THEN {<<>>} ELSE LET s == SeqsOf(A, n - 1) IN s \cup {Append(x, u) : x \in {y \in s : Len(y) = n - 1}, u \in A}
Msgs == {<<>>, <<1>>, <<2>>, <<1, 3>>, <<1, 4, 3>>, <<5>>, <<1, 6, 3>>, <<2, 3, 7, 3>>, <<1, 6>>, <<1, 8>>, <<2, 3, 9>>, <<8>>}     \* none | plain | contains ": " | two lines | blank line inside | non-ASCII | caret-pointer lines (a parser quoting its input) | last line blank-only (8: spaces, 9: a tab; a message ending in a line break is exercised through real exceptions, kinds 13-14 of the chains)
Init == \/ /\ kind = "text" /\ tb \in [frames : SeqsOf(FrameSet, 1) \cup SeqsOf(FrameSmall, MaxFrames), etype : {1, 2}, msg : Msgs]
           /\ prog = <<>> /\ exc = 0
        \/ /\ kind = "chain" /\ prog \in SeqsOf(1..8, MaxDepth) \ {<<>>} /\ exc \in 1..15
           /\ tb = [frames |-> <<>>, etype |-> 1, msg |-> <<>>]
Next == UNCHANGED vars
Spec == Init /\ [][Next]_vars
Laws == kind = "text" => Parse(Render(tb)) = tb
Emit == PrintT(<<"T", ToJson(IF kind = "text" THEN [kind |-> kind, tb |-> tb, lines |-> Render(tb)]
                             ELSE [kind |-> kind, prog |-> prog, exc |-> exc, frames |-> Frames(prog)])>>)
=============================================================================
