--------------------------------- MODULE TbText ---------------------------------
(***************************************************************************)
(* The interpreter's standard traceback text (C16), at the level of LINE   *)
(* KINDS.  A traceback is [frames, etype, msg]; a frame is                 *)
(* [path, lineno, func, src] with src 0 = no source line, 1 = source line, *)
(* 2 = source line followed by a position-marker line, and rep = N > 0 when *)
(* the line "[Previous line repeated N more times]" follows the frame      *)
(* (what the interpreter prints for a recursion).  msg is a sequence       *)
(* of message lines (<<>> = no message).                                   *)
(* Render: the lines the interpreter prints.  Parse: the line-oriented     *)
(* state machine the property describes (header, then per frame: frame     *)
(* line, optional indented source line, optional marker line; the first    *)
(* line that is not a frame line starts the exception text).               *)
(***************************************************************************)
EXTENDS Naturals, Integers, Sequences, FiniteSets

Line(k, a, b, c) == [k |-> k, a |-> a, b |-> b, c |-> c]
RECURSIVE RenderFrames(_)
RenderFrames(fs) == IF fs = <<>> THEN <<>>
    ELSE LET f == Head(fs) IN
         <<Line("frame", f.path, f.lineno, f.func)>>
         \o (IF f.src >= 1 THEN <<Line("src", f.path, f.lineno, 0)>> ELSE <<>>)
         \o (IF f.src = 2 THEN <<Line("marker", 0, 0, 0)>> ELSE <<>>)
         \o (IF f.rep > 0 THEN <<Line("rep", f.rep, 0, 0)>> ELSE <<>>)
         \o RenderFrames(Tail(fs))
(* exception text: "Type" or "Type: first message line", further message lines follow unindented *)
RenderExc(etype, msg) == IF msg = <<>> THEN <<Line("exc", etype, 0, 0)>>
                         ELSE <<Line("exc", etype, msg[1], 1)>> \o [i \in 1..(Len(msg) - 1) |-> Line("more", msg[i + 1], 0, 0)]
Render(tb) == <<Line("hdr", 0, 0, 0)>> \o RenderFrames(tb.frames) \o RenderExc(tb.etype, tb.msg)

RECURSIVE ParseFrames(_, _, _)
ParseFrames(ls, i, acc) ==
    IF i > Len(ls) \/ ls[i].k # "frame" THEN [frames |-> acc, next |-> i]
    ELSE LET hasSrc == i + 1 <= Len(ls) /\ ls[i + 1].k = "src"
             j == IF hasSrc THEN i + 2 ELSE i + 1
             hasMark == hasSrc /\ j <= Len(ls) /\ ls[j].k = "marker"
             j2 == IF hasMark THEN j + 1 ELSE j
             hasRep == j2 <= Len(ls) /\ ls[j2].k = "rep"
         IN ParseFrames(ls, IF hasRep THEN j2 + 1 ELSE j2,
                        Append(acc, [path |-> ls[i].a, lineno |-> ls[i].b, func |-> ls[i].c, src |-> IF hasMark THEN 2 ELSE IF hasSrc THEN 1 ELSE 0,
                                     rep |-> IF hasRep THEN ls[j2].a ELSE 0]))
Parse(ls) == LET p == ParseFrames(ls, 2, <<>>)
                 e == ls[p.next]
                 rest == SubSeq(ls, p.next + 1, Len(ls)) IN
             [frames |-> p.frames, etype |-> e.a,
              msg |-> IF e.c = 0 THEN <<>> ELSE <<e.b>> \o [i \in 1..Len(rest) |-> rest[i].a]]
(* what to_string() must reproduce: the same lines, marker lines aside *)
WithoutMarkers(ls) == SelectSeq(ls, LAMBDA l : l.k # "marker")
=============================================================================
