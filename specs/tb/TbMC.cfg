SPECIFICATION Spec
CONSTANTS MaxFrames = 2  MaxDepth = 3
INVARIANT Laws
INVARIANT Emit
CHECK_DEADLOCK FALSE
