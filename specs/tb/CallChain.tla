-------------------------------- MODULE CallChain --------------------------------
(***************************************************************************)
(* Call chains that end in a raise (C16, second part).  A program is a     *)
(* sequence of levels, outermost first; level kinds:                       *)
(*   1 plain function  2 lambda  3 method  4 nested function               *)
(*   5 function compiled by exec (no source available)  6 recursion x2     *)
(*   7 function compiled by exec INSIDE the module's own namespace (as     *)
(*     dataclasses / namedtuple do): no source either, although the        *)
(*     module it lives in has a file                                       *)
(*   8 recursion on one line, 3 to 6 frames deep depending on where the    *)
(*     level sits (the interpreter prints such a frame three times and     *)
(*     then counts the rest: none, "1 more time", "2 more times", ...)     *)
(* and the kind of exception raised at the bottom.  Frames(p): the frames  *)
(* the traceback must list - <<function name class, has source>> - in      *)
(* order, after the driver's own frame.                                    *)
(***************************************************************************)
EXTENDS Naturals, Integers, Sequences
Deep(i, L) == 3 + ((i + L) % 4)          \* frames of a kind-8 level at position i of a program of L levels
RECURSIVE FramesFrom(_, _)
FramesFrom(p, i) == IF i > Len(p) THEN <<>>
             ELSE LET k == p[i] IN
                  (IF k = 6 THEN << <<6, TRUE>>, <<6, TRUE>> >>
                   ELSE IF k = 8 THEN [j \in 1..Deep(i, Len(p)) |-> <<8, TRUE>>]
                   ELSE << <<k, k \notin {5, 7}>> >>) \o FramesFrom(p, i + 1)
Frames(p) == FramesFrom(p, 1)
NFrames(p) == Len(Frames(p))
=============================================================================
