-------------------------------- MODULE CallChain --------------------------------
(***************************************************************************)
(* Call chains that end in a raise (C16, second part).  A program is a     *)
(* sequence of levels, outermost first; level kinds:                       *)
(*   1 plain function  2 lambda  3 method  4 nested function               *)
(*   5 function compiled by exec (no source available)  6 recursion x2     *)
(*   7 function compiled by exec INSIDE the module's own namespace (as     *)
(*     dataclasses / namedtuple do): no source either, although the        *)
(*     module it lives in has a file                                       *)
(*   8 recursion six deep on one line (the interpreter prints such a frame *)
(*     three times and then counts the rest)                               *)
(* and the kind of exception raised at the bottom.  Frames(p): the frames  *)
(* the traceback must list - <<function name class, has source>> - in      *)
(* order, after the driver's own frame.                                    *)
(***************************************************************************)
EXTENDS Naturals, Integers, Sequences
RECURSIVE Frames(_)
Frames(p) == IF p = <<>> THEN <<>>
             ELSE LET k == Head(p) IN
                  (IF k = 6 THEN << <<6, TRUE>>, <<6, TRUE>> >>
                   ELSE IF k = 8 THEN [i \in 1..7 |-> <<8, TRUE>>]
                   ELSE << <<k, k \notin {5, 7}>> >>) \o Frames(Tail(p))
NFrames(p) == Len(Frames(p))
=============================================================================
