SPECIFICATION Spec
CONSTANTS MaxFrames = 3  MaxDepth = 4
INVARIANT Laws
INVARIANT Emit
CHECK_DEADLOCK FALSE
