SPECIFICATION Spec
CONSTANTS W = 5  MaxD = 5  MaxAdds = 40
INVARIANT StaysSmall
CHECK_DEADLOCK FALSE
