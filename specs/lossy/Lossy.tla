-------------------------------- MODULE Lossy --------------------------------
(***************************************************************************)
(* cacheutils.ThresholdCounter (C20).                                      *)
(*                                                                         *)
(* Two layers.  (1) What the property promises, as predicates over the     *)
(* TRUE counts of the stream (a ghost) and whatever a counter reports:     *)
(* Admissible(...).  Any implementation meeting them is accepted.          *)
(* (2) The lossy-counting mechanism the code uses (Manku & Motwani):       *)
(* per key <<count, bucket-at-entry>>, compaction every W additions.       *)
(* TLC checks that (2) satisfies (1) for every stream of the bounded model *)
(* and exports its state graph (= every short stream) for replay; traces   *)
(* of long adversarial streams are validated against (1).                  *)
(* Threshold = TP/TQ (a rational), W = floor(TQ/TP) additions per bucket.  *)
(***************************************************************************)
EXTENDS Naturals, Integers, Sequences, FiniteSets, SequencesExt

W(tp, tq) == tq \div tp

(* ---------- (1) the promise ---------- *)
(* rep: reported counts as a sequence over keys 1..N (0 = absent), truec: true counts *)
Slack(total, tp, tq) == total \div W(tp, tq)
NeverOver(rep, truec) == \A k \in 1..Len(rep) : rep[k] <= truec[k]
BoundedUnder(rep, truec, total, tp, tq) == \A k \in 1..Len(rep) : truec[k] - rep[k] <= Slack(total, tp, tq)
Tracked(rep) == Cardinality({k \in 1..Len(rep) : rep[k] > 0})
StaysSmall(rep, tp, tq) == Tracked(rep) * tp <= 2 * tq          \* |tracked| <= 2 / threshold
SumSeq(s) == FoldSeq(+, 0, s)
Admissible(rep, total, common, uncommon, truec, tp, tq) ==
    /\ total = SumSeq(truec)
    /\ NeverOver(rep, truec)
    /\ BoundedUnder(rep, truec, total, tp, tq)
    /\ StaysSmall(rep, tp, tq)
    /\ common = SumSeq(rep)
    /\ common + uncommon = total

(* ---------- (2) the mechanism ---------- *)
(* state: [cnt, ent : Seq over keys, total, bucket, truec, tp, tq] *)
Init0(n, tp, tq) == [cnt |-> [k \in 1..n |-> 0], ent |-> [k \in 1..n |-> 0], total |-> 0, bucket |-> 1,
                     truec |-> [k \in 1..n |-> 0], tp |-> tp, tq |-> tq]
Add(st, k) ==
  LET c1 == [st.cnt EXCEPT ![k] = @ + 1]
      e1 == IF st.cnt[k] = 0 THEN [st.ent EXCEPT ![k] = st.bucket - 1] ELSE st.ent
      t1 == st.total + 1
      compact == t1 % W(st.tp, st.tq) = 0
      keep(j) == c1[j] + e1[j] > st.bucket
  IN [st EXCEPT !.cnt = IF compact THEN [j \in 1..Len(c1) |-> IF keep(j) THEN c1[j] ELSE 0] ELSE c1,
                !.ent = IF compact THEN [j \in 1..Len(c1) |-> IF keep(j) THEN e1[j] ELSE 0] ELSE e1,
                !.total = t1,
                !.bucket = IF compact THEN st.bucket + 1 ELSE st.bucket,
                !.truec = [st.truec EXCEPT ![k] = @ + 1]]
RECURSIVE AddAll(_, _)
AddAll(st, ks) == IF ks = <<>> THEN st ELSE AddAll(Add(st, Head(ks)), Tail(ks))
(* update(mapping k -> n) / keyword counts: n additions of k, key by key *)
RECURSIVE Expand(_)
Expand(kc) == IF kc = <<>> THEN <<>> ELSE [i \in 1..Head(kc)[2] |-> Head(kc)[1]] \o Expand(Tail(kc))

Op(name, k, ks, kc) == [op |-> name, k |-> k, ks |-> ks, kc |-> kc]
Stream(o) == CASE o.op = "add" -> <<o.k>>
               [] o.op = "update_keys" -> o.ks
               [] o.op = "update_counts" -> Expand(o.kc)
               [] OTHER -> <<>>
Apply(st, o) == AddAll(st, Stream(o))

MechAdmissible(st) ==
    Admissible(st.cnt, st.total, SumSeq(st.cnt), st.total - SumSeq(st.cnt), st.truec, st.tp, st.tq)
(* what the property lets a reader rely on, for the harness: *)
Obs(st) == [total |-> st.total, truec |-> st.truec, slack |-> Slack(st.total, st.tp, st.tq),
            tp |-> st.tp, tq |-> st.tq, mech_cnt |-> st.cnt]
=============================================================================
