SPECIFICATION Spec
CONSTANTS W = 3  MaxD = 6  MaxAdds = 60
INVARIANT StaysSmall
CHECK_DEADLOCK FALSE
