------------------------------ MODULE LossyTrace ------------------------------
(* Validates recorded ThresholdCounter runs against the PROMISE of Lossy.tla   *)
(* (not against the mechanism): the spec state is only the true count of every *)
(* key. Each event is one add/update call with what the counter then reports:  *)
(* total, number of tracked keys, common/uncommon sums and reported counts     *)
(* (rep: <<key, count>> pairs; all keys when full = TRUE, else a few).         *)
(* The size bound |tracked| <= 2/threshold is judged apart: an event that only *)
(* exceeds it is printed as a NOTE (with whether the counter holds exactly what *)
(* the lossy-counting mechanism mst holds) and the run is validated to its end. *)
EXTENDS Lossy, TLC, Json, IOUtils
Traces == JsonDeserialize(IOEnv.TRACE_FILE)
VARIABLES tid, l, truec, mst
vars == <<tid, l, truec, mst>>

RECURSIVE Bump(_, _)
Bump(tc, ks) == IF ks = <<>> THEN tc ELSE Bump([tc EXCEPT ![Head(ks)] = @ + 1], Tail(ks))

(* every clause of the promise except the size bound *)
GoodCore(tc, ev, tp, tq) ==
  LET total == SumSeq(tc) IN
    /\ ev.total = total
    /\ ev.common + ev.uncommon = total
    /\ ev.views_ok
    /\ \A i \in 1..Len(ev.rep) :
         LET k == ev.rep[i][1]  c == ev.rep[i][2] IN
            c <= tc[k] /\ tc[k] - c <= Slack(total, tp, tq)
    /\ ev.full => /\ Len(ev.rep) = Len(tc)
                  /\ ev.common = SumSeq([i \in 1..Len(ev.rep) |-> ev.rep[i][2]])
                  /\ ev.len = Cardinality({i \in 1..Len(ev.rep) : ev.rep[i][2] > 0})
SizeBound(ev, tp, tq) == ev.len * tp <= 2 * tq
(* does the counter report exactly what the lossy-counting mechanism of Lossy.tla (2) holds for this stream? *)
AsMechanism(m, ev) == /\ m.total = ev.total                 \* (the mechanism is carried along only for traces marked mech)
                      /\ ev.len = Tracked(m.cnt)
                      /\ \A i \in 1..Len(ev.rep) : ev.rep[i][2] = m.cnt[ev.rep[i][1]]

Init == /\ tid \in 1..Len(Traces) /\ l = 1 /\ truec = [k \in 1..Traces[tid].n |-> 0]
        /\ mst = Init0(Traces[tid].n, Traces[tid].tp, Traces[tid].tq)
Step == /\ l >= 1 /\ l <= Len(Traces[tid].ev)
        /\ LET ev == Traces[tid].ev[l]
               tc == Bump(truec, Stream(ev.op))
               m == IF Traces[tid].mech THEN Apply(mst, ev.op) ELSE mst IN
           IF GoodCore(tc, ev, Traces[tid].tp, Traces[tid].tq)
           THEN /\ truec' = tc /\ l' = l + 1 /\ tid' = tid /\ mst' = m
                (* a run that only exceeds the size bound is noted and validated to its end *)
                /\ (~SizeBound(ev, Traces[tid].tp, Traces[tid].tq) /\ (l = 1 \/ SizeBound(Traces[tid].ev[l - 1], Traces[tid].tp, Traces[tid].tq) \/ ~AsMechanism(m, ev)))
                      => PrintT(<<"NOTE", ToJson([tid |-> tid, l |-> l, what |-> "tracked-keys-exceed-2-over-threshold", len |-> ev.len,
                                                  mechanism_len |-> Tracked(m.cnt), as_mechanism |-> AsMechanism(m, ev)])>>)
           ELSE /\ PrintT(<<"REJECT", ToJson([tid |-> tid, l |-> l, st |-> [truec |-> tc, slack |-> Slack(SumSeq(tc), Traces[tid].tp, Traces[tid].tq)], exp |-> <<>>])>>)
                /\ l' = 0 /\ UNCHANGED <<tid, truec, mst>>
Spec == Init /\ [][Step]_vars
Accept == (l = Len(Traces[tid].ev) + 1) => PrintT(<<"ACCEPT", tid>>)
=============================================================================
