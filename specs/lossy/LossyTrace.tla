------------------------------ MODULE LossyTrace ------------------------------
(* Validates recorded ThresholdCounter runs against the PROMISE of Lossy.tla   *)
(* (not against the mechanism): the spec state is only the true count of every *)
(* key. Each event is one add/update call with what the counter then reports:  *)
(* total, number of tracked keys, common/uncommon sums and reported counts     *)
(* (rep: <<key, count>> pairs; all keys when full = TRUE, else a few).         *)
EXTENDS Lossy, TLC, Json, IOUtils
Traces == JsonDeserialize(IOEnv.TRACE_FILE)
VARIABLES tid, l, truec
vars == <<tid, l, truec>>

RECURSIVE Bump(_, _)
Bump(tc, ks) == IF ks = <<>> THEN tc ELSE Bump([tc EXCEPT ![Head(ks)] = @ + 1], Tail(ks))

Good(tc, ev, tp, tq) ==
  LET total == SumSeq(tc) IN
    /\ ev.total = total
    /\ ev.common + ev.uncommon = total
    /\ ev.len * tp <= 2 * tq
    /\ ev.views_ok
    /\ \A i \in 1..Len(ev.rep) :
         LET k == ev.rep[i][1]  c == ev.rep[i][2] IN
            c <= tc[k] /\ tc[k] - c <= Slack(total, tp, tq)
    /\ ev.full => /\ Len(ev.rep) = Len(tc)
                  /\ ev.common = SumSeq([i \in 1..Len(ev.rep) |-> ev.rep[i][2]])
                  /\ ev.len = Cardinality({i \in 1..Len(ev.rep) : ev.rep[i][2] > 0})

Init == tid \in 1..Len(Traces) /\ l = 1 /\ truec = [k \in 1..Traces[tid].n |-> 0]
Step == /\ l >= 1 /\ l <= Len(Traces[tid].ev)
        /\ LET ev == Traces[tid].ev[l]
               tc == Bump(truec, Stream(ev.op)) IN
           IF Good(tc, ev, Traces[tid].tp, Traces[tid].tq)
           THEN truec' = tc /\ l' = l + 1 /\ tid' = tid
           ELSE /\ PrintT(<<"REJECT", ToJson([tid |-> tid, l |-> l, st |-> [truec |-> tc, slack |-> Slack(SumSeq(tc), Traces[tid].tp, Traces[tid].tq)], exp |-> <<>>])>>)
                /\ l' = 0 /\ UNCHANGED <<tid, truec>>
Spec == Init /\ [][Step]_vars
Accept == (l = Len(Traces[tid].ev) + 1) => PrintT(<<"ACCEPT", tid>>)
=============================================================================
