SPECIFICATION Spec
CONSTANTS Thresholds <- ThQuick  ExtraKeys = 3  MaxBuckets = 4
VIEW Vw
INVARIANT InvPromise
INVARIANT InvHeavyPresent
CHECK_DEADLOCK FALSE
