SPECIFICATION Spec
CONSTANTS W = 2  MaxD = 6  MaxAdds = 60
INVARIANT StaysSmall
CHECK_DEADLOCK FALSE
