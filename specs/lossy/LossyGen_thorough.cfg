INIT Init
NEXT Next
CONSTANTS Thresholds <- ThThorough  ExtraKeys = 2  MaxBuckets = 3
VIEW Vw
INVARIANT EmitI
INVARIANT EmitS
ACTION_CONSTRAINT EmitE
CHECK_DEADLOCK FALSE
