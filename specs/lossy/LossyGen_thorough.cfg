INIT Init
NEXT Next
CONSTANTS Thresholds <- ThThorough  ExtraKeys = 3  MaxBuckets = 3
VIEW Vw
INVARIANT EmitI
INVARIANT EmitS
ACTION_CONSTRAINT EmitE
CHECK_DEADLOCK FALSE
