------------------------------- MODULE LossyMC -------------------------------
EXTENDS Lossy, TLC, Json
CONSTANTS Thresholds,   \* set of <<tp, tq>>
          ExtraKeys,    \* keys = W + ExtraKeys
          MaxBuckets    \* streams of up to MaxBuckets * W additions
ThQuick == {<<1, 2>>, <<1, 3>>, <<3, 10>>, <<1, 4>>}
ThThorough == {<<1, 2>>, <<1, 3>>, <<3, 10>>, <<13, 50>>, <<1, 4>>}
VARIABLES st, last
vars == <<st, last>>
NKeys(t) == W(t[1], t[2]) + ExtraKeys
Init == /\ st \in {Init0(NKeys(t), t[1], t[2]) : t \in Thresholds}
        /\ last = Op("init", 0, <<>>, <<>>)
(* keys are interchangeable: a new key is always the next unused number (canonical streams) *)
Seen == Cardinality({k \in 1..Len(st.cnt) : st.truec[k] > 0})
Ops == {Op("add", k, <<>>, <<>>) : k \in 1..(IF Seen < Len(st.cnt) THEN Seen + 1 ELSE Seen)}
Next == /\ st.total < MaxBuckets * W(st.tp, st.tq)
        /\ \E o \in Ops : st' = Apply(st, o) /\ last' = o
Spec == Init /\ [][Next]_vars
(* keys are interchangeable: explore one representative per permutation class of the counters *)
Vw == st
EmitI == (last.op = "init") => PrintT(<<"I", ToJson(st)>>)
EmitS == PrintT(<<"S", ToJson([s |-> st, obs |-> Obs(st)])>>)
EmitE == PrintT(<<"E", ToJson([f |-> st, op |-> last', o |-> [s |-> st', r |-> [e |-> "ok", v |-> <<>>]], t |-> st'])>>)
InvPromise == MechAdmissible(st)
InvHeavyPresent == \A k \in 1..Len(st.cnt) : st.truec[k] > Slack(st.total, st.tp, st.tq) => st.cnt[k] > 0
=============================================================================
