------------------------------ MODULE LossyBound ------------------------------
(***************************************************************************)
(* Is "never more than 2/threshold tracked keys" a theorem of the lossy-   *)
(* counting mechanism of Lossy.tla?  Only the survival margin of a key     *)
(* matters: d = count + entry-bucket - current bucket (a fresh key has     *)
(* d = 0; one more hit raises d by one; the compaction after every W-th    *)
(* addition drops the keys with d = 0 and lowers every other d by one).    *)
(* The state is the bag of margins (m[d] = number of keys with margin d)   *)
(* and the position inside the bucket; TLC searches every stream for a     *)
(* state with more than 2W keys.  The violation it reports for W >= 6 is   *)
(* the shortest adversarial stream; the harness turns it into key          *)
(* additions and runs it on ThresholdCounter.                              *)
(***************************************************************************)
EXTENDS Naturals, Sequences, FiniteSets
CONSTANTS W, MaxD, MaxAdds
VARIABLES m, pos, adds, act
vars == <<m, pos, adds, act>>
Keys(mm) == LET RECURSIVE S(_) S(d) == IF d > MaxD THEN 0 ELSE mm[d] + S(d + 1) IN S(0)
Compact(mm) == [d \in 0..MaxD |-> IF d < MaxD THEN mm[d + 1] ELSE 0]     \* drop d = 0, shift the rest down
After(mm) == IF pos + 1 = W THEN Compact(mm) ELSE mm
Init == m = [d \in 0..MaxD |-> 0] /\ pos = 0 /\ adds = 0 /\ act = <<"init", 0>>
Fresh == /\ m' = After([m EXCEPT ![0] = @ + 1]) /\ act' = <<"fresh", 0>>
Hit(d) == /\ m[d] > 0 /\ d < MaxD
          /\ m' = After([m EXCEPT ![d] = @ - 1, ![d + 1] = @ + 1]) /\ act' = <<"hit", d>>
Next == /\ adds < MaxAdds /\ adds' = adds + 1 /\ pos' = (pos + 1) % W
        /\ (Fresh \/ \E d \in 0..(MaxD - 1) : Hit(d))
Spec == Init /\ [][Next]_vars
StaysSmall == Keys(m) <= 2 * W
=============================================================================
