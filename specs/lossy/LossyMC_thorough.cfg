SPECIFICATION Spec
CONSTANTS Thresholds <- ThThorough  ExtraKeys = 3  MaxBuckets = 4
VIEW Vw
INVARIANT InvPromise
INVARIANT InvHeavyPresent
CHECK_DEADLOCK FALSE
