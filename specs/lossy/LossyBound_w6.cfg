SPECIFICATION Spec
CONSTANTS W = 6  MaxD = 5  MaxAdds = 40
INVARIANT StaysSmall
CHECK_DEADLOCK FALSE
