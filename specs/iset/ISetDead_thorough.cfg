SPECIFICATION Spec
CONSTANTS Items = {1, 2, 3, 4, 5, 6, 7}  CompactionFactor = 1  MaxDeadIntervals = 3  MaxOps = 13  RepairedTrim = TRUE
INVARIANT InvRefines
INVARIANT InvTranslation
INVARIANT InvIntervals
INVARIANT InvLastIsLive
CHECK_DEADLOCK FALSE
