SPECIFICATION Spec
CONSTANTS A = 4  L = 4  Opnds2 = TRUE
VIEW Vw
INVARIANT InvInjective
INVARIANT InvReads
PROPERTY ActSetAlgebra
CHECK_DEADLOCK FALSE
