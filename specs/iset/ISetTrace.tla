------------------------------- MODULE ISetTrace -------------------------------
(* Validates long recorded IndexedSet histories against ISet.tla. Every event   *)
(* carries the call, its result, len(), and sampled reads: s[i] probes, index() *)
(* probes, slices, membership; every so often the complete iteration order.     *)
(* An event marked fork made a second object from the current one (frozen); the  *)
(* trace goes on with one of the two and later events probe the other (twin),   *)
(* which must keep reading as the frozen contents.                              *)
EXTENDS ISet, TLC, Json, IOUtils
Traces == JsonDeserialize(IOEnv.TRACE_FILE)
VARIABLES tid, l, st, frozen
vars == <<tid, l, st, frozen>>
Reads(s, ev) ==
    /\ ev.len = Len(s)
    /\ \A i \in 1..Len(ev.getitem) : ev.getitem[i][2] = PyIndex(s, ev.getitem[i][1])
    /\ \A i \in 1..Len(ev.index) : ev.index[i][2] = (IF ev.index[i][1] \in Elems(s) THEN Idx(s, ev.index[i][1]) - 1 ELSE -1)
    /\ \A i \in 1..Len(ev.slices) : ev.slices[i][2] = PySlice(s, ev.slices[i][1][1], ev.slices[i][1][2], ev.slices[i][1][3])
    /\ ev.hasfull => (ev.full = s /\ ev.fullrev = Rev(s))
Init == tid \in 1..Len(Traces) /\ l = 1 /\ st = St(<<>>) /\ frozen = <<>>
Step == /\ l >= 1 /\ l <= Len(Traces[tid].ev)
        /\ LET ev == Traces[tid].ev[l]
               (* a sort whose comparisons raise (items of types that cannot be ordered): TypeError, and the object is still *)
               (* the same items in SOME order - the order the event reports in full - with all reads agreeing on it        *)
               cand == IF ev.op.op = "sort_failing"
                       THEN (IF ev.hasfull /\ Len(ev.full) = Len(st.it) /\ Elems(ev.full) = Elems(st.it)
                             THEN {[s |-> St(ev.full), r |-> [e |-> "TypeError", v |-> <<>>]]} ELSE {})
                       ELSE Outcomes([st EXCEPT !.term = FALSE], ev.op)
               ms == {o \in cand : o.r = ev.r /\ Reads(o.s.it, ev) /\ (ev.hastwin => Reads(frozen, ev.twin))} IN
           (* a "pure" event built a new set (or answered a predicate) from the object: its reads are those of the result, *)
           (* and the object itself is what it was                                                                        *)
           IF ms # {} THEN \E o \in ms : st' = (IF ev.pure THEN st ELSE o.s) /\ l' = l + 1 /\ tid' = tid /\ frozen' = (IF ev.fork THEN o.s.it ELSE frozen)
           ELSE /\ PrintT(<<"REJECT", ToJson([tid |-> tid, l |-> l, st |-> st, frozen |-> frozen, exp |-> {[r |-> o.r, it |-> o.s.it] : o \in cand}])>>)
                /\ l' = 0 /\ UNCHANGED <<tid, st, frozen>>
Spec == Init /\ [][Step]_vars
Accept == (l = Len(Traces[tid].ev) + 1) => PrintT(<<"ACCEPT", tid>>)
=============================================================================
