SPECIFICATION Spec
CONSTANTS A = 5  L = 5  Opnds2 = TRUE
VIEW Vw
INVARIANT InvInjective
INVARIANT InvReads
PROPERTY ActSetAlgebra
CHECK_DEADLOCK FALSE
