SPECIFICATION TSpec
CONSTANTS Items = {1}  CompactionFactor = 8  MaxDeadIntervals = 384  MaxOps = 0  RepairedTrim = TRUE
INVARIANT Accept
INVARIANT InvRefines
INVARIANT InvTranslation
INVARIANT InvIntervals
CHECK_DEADLOCK FALSE
