-------------------------------- MODULE ISetMC --------------------------------
EXTENDS ISet, TLC, Json
CONSTANTS A, L, Opnds2       \* atoms 1..A, lists up to L long, whether two-operand calls are generated
Atoms == 1..A
Opnds == {<<>>, <<1>>, <<2, 1>>, <<3, 4>>, <<1, 1>>, <<2, 3, 2>>}
OpLists == {<<>>} \cup {<<a>> : a \in Opnds} \cup (IF Opnds2 THEN {<<a, b>> : a \in Opnds, b \in {<<2, 1>>, <<3, 4>>, <<1, 3>>}} ELSE {})
Ops == {Op(n, x, <<>>) : n \in {"add", "remove", "discard"}, x \in Atoms}
  \cup {Op("pop", i, <<>>) : i \in (-L..(L - 1)) \cup {NONE}}
  \cup {Op(n, 0, <<>>) : n \in {"clear", "sort", "reverse", "copy_ctor", "sort_rev", "sort_key", "sort_key_rev"}}
  \cup {Op(n, 0, ol) : n \in {"update", "intersection_update", "difference_update", "union", "intersection", "difference"}, ol \in OpLists}
  \cup {Op(n, 0, <<a>>) : n \in {"symmetric_difference_update", "symmetric_difference", "rsub", "issubset", "issuperset", "isdisjoint"}, a \in Opnds}
VARIABLES st, last
vars == <<st, last>>
Init == st = St(<<>>) /\ last = [op |-> Op("init", 0, <<>>), o |-> Out(St(<<>>), Ok(<<>>))]
Next == /\ ~st.term
        /\ \E o \in Ops : \E out \in Outcomes(st, o) :
              Len(out.s.it) <= L /\ st' = out.s /\ last' = [op |-> o, o |-> out]
Spec == Init /\ [][Next]_vars
Vw == st
InvInjective == Injective(st.it)
(* the reads are those of the plain list st.it *)
InvReads == LET o == Obs(st, A) IN
    /\ \A a \in 1..A : (o.contains[a] <=> o.index[a] >= 0) /\ (o.index[a] >= 0 => st.it[o.index[a] + 1] = a)
    /\ Len(o.getitem) = 2 * o.len
    /\ o.reversed = Rev(o.iter)
(* set results contain exactly what Python sets would *)
ActSetAlgebra == [][LET o == last'.op  r == Elems(st'.it)  s == Elems(st.it)
                        U(ol) == UNION {Elems(ol[i]) : i \in 1..Len(ol)} IN
      /\ o.op \in {"union", "update"} => r = s \cup U(o.ops)
      /\ o.op \in {"intersection", "intersection_update"} => r = {x \in s : \A i \in 1..Len(o.ops) : x \in Elems(o.ops[i])}
      /\ o.op \in {"difference", "difference_update"} => r = s \ U(o.ops)
      /\ o.op \in {"symmetric_difference", "symmetric_difference_update"} => r = (s \ Elems(o.ops[1])) \cup (Elems(o.ops[1]) \ s)]_vars
EmitI == (last.op.op = "init") => PrintT(<<"I", ToJson(st)>>)
EmitS == PrintT(<<"S", ToJson([s |-> st, obs |-> Obs(st, A)])>>)
EmitE == PrintT(<<"E", ToJson([f |-> st, op |-> last'.op, o |-> last'.o, t |-> st'])>>)
=============================================================================
