--------------------------------- MODULE ISet ---------------------------------
(***************************************************************************)
(* Reference semantics of setutils.IndexedSet (C11): a list of distinct    *)
(* items in first-insertion order, with deletions applied, that is also a  *)
(* set.  State [it |-> Seq(item) (injective), term |-> BOOLEAN].           *)
(* Operands of set operations are given as the SEQUENCE in which they      *)
(* iterate (results are ordered by first appearance in self, then in the   *)
(* operands).  1000000 = None (omitted slice bound / step / index).             *)
(***************************************************************************)
EXTENDS Naturals, Integers, Sequences, FiniteSets, SequencesExt

NONE == 1000000
Elems(s) == {s[i] : i \in 1..Len(s)}
(* first occurrences, in order, of the elements of s not in seen (no recursion: sequences get long in traces) *)
Dedup(s, seen) == LET keep == {i \in 1..Len(s) : s[i] \notin seen /\ \A j \in 1..(i - 1) : s[j] # s[i]}
                      ks == SetToSortSeq(keep, <)
                  IN [m \in 1..Len(ks) |-> s[ks[m]]]
RECURSIVE Cat(_)
Cat(ss) == IF ss = <<>> THEN <<>> ELSE Head(ss) \o Cat(Tail(ss))
Rev(s) == [i \in 1..Len(s) |-> s[Len(s) + 1 - i]]
Idx(s, x) == CHOOSE i \in 1..Len(s) : s[i] = x
Without(s, x) == SelectSeq(s, LAMBDA e : e # x)

Union(s, ops) == Dedup(s \o Cat(ops), {})
Inter(s, ops) == SelectSeq(s, LAMBDA x : \A i \in 1..Len(ops) : x \in Elems(ops[i]))
Diff(s, ops)  == SelectSeq(s, LAMBDA x : \A i \in 1..Len(ops) : x \notin Elems(ops[i]))
SymDiffSeq(s, o) == Diff(s, <<o>>) \o Dedup(SelectSeq(o, LAMBDA x : x \notin Elems(s)), {})

(* Python slicing with a positive step *)
MaxI(a, b) == IF a > b THEN a ELSE b
MinI(a, b) == IF a < b THEN a ELSE b
Bound(i, n, dflt) == IF i = NONE THEN dflt ELSE IF i < 0 THEN MaxI(i + n, 0) ELSE MinI(i, n)
PySlice(s, i, j, k) ==
    LET n == Len(s)  a == Bound(i, n, 0)  b == Bound(j, n, n)  st == IF k = NONE THEN 1 ELSE k
        cnt == IF b > a THEN (b - a + st - 1) \div st ELSE 0
    IN [m \in 1..cnt |-> s[a + 1 + (m - 1) * st]]
PyIndex(s, i) == IF i < 0 THEN s[Len(s) + i + 1] ELSE s[i + 1]

Ok(v)  == [e |-> "ok", v |-> v]
Err(n) == [e |-> n, v |-> <<>>]
St(s) == [it |-> s, term |-> FALSE]
Term(s) == [it |-> s, term |-> TRUE]
Out(s, r) == [s |-> s, r |-> r]
B(b) == IF b THEN 1 ELSE 0
(* op: name, x (item or index), ops (sequence of operand sequences) *)
Op(name, x, ops) == [op |-> name, x |-> x, ops |-> ops]

SortKey(e) == e % 3
StableBy(s, rev) ==
  LET before(i, j) == \/ (IF rev THEN SortKey(s[i]) > SortKey(s[j]) ELSE SortKey(s[i]) < SortKey(s[j]))
                      \/ (SortKey(s[i]) = SortKey(s[j]) /\ i < j)
      order == SortSeq([i \in 1..Len(s) |-> i], before)
  IN [i \in 1..Len(s) |-> s[order[i]]]

Outcomes(st, o) ==
  LET s == st.it  x == o.x IN
  CASE o.op = "add"     -> {Out(St(IF x \in Elems(s) THEN s ELSE Append(s, x)), Ok(<<>>))}
    [] o.op = "remove"  -> IF x \in Elems(s) THEN {Out(St(Without(s, x)), Ok(<<>>))} ELSE {Out(St(s), Err("KeyError"))}
    [] o.op = "discard" -> {Out(St(Without(s, x)), Ok(<<>>))}
    (* pop(i) for a valid index i, or pop() (x = NONE) = the last item *)
    [] o.op = "pop" ->
         IF s = <<>> THEN {Out(St(s), Err("IndexError"))}
         ELSE LET i == IF x = NONE THEN -1 ELSE x IN
              IF i >= Len(s) \/ i < -Len(s) THEN {}
              ELSE {Out(St(Without(s, PyIndex(s, i))), Ok(<<PyIndex(s, i)>>))}
    [] o.op = "clear"   -> {Out(St(<<>>), Ok(<<>>))}
    [] o.op = "sort"    -> {Out(St(SortSeq(s, <)), Ok(<<>>))}
    (* sort(reverse=True), sort(key=item mod 3), sort(key=item mod 3, reverse=True): list.sort is stable, also when *)
    (* reversed - items with equal keys keep the order they had                                                     *)
    [] o.op = "sort_rev" -> {Out(St(Rev(SortSeq(s, <))), Ok(<<>>))}
    [] o.op = "sort_key" -> {Out(St(StableBy(s, FALSE)), Ok(<<>>))}
    [] o.op = "sort_key_rev" -> {Out(St(StableBy(s, TRUE)), Ok(<<>>))}
    [] o.op = "reverse" -> {Out(St(Rev(s)), Ok(<<>>))}
    (* in place: update / |= ; intersection_update / &= ; difference_update / -= ; symmetric_difference_update / ^= *)
    [] o.op = "update"               -> {Out(St(Union(s, o.ops)), Ok(<<>>))}
    [] o.op = "intersection_update"  -> {Out(St(Inter(s, o.ops)), Ok(<<>>))}
    [] o.op = "difference_update"    -> {Out(St(Diff(s, o.ops)), Ok(<<>>))}
    [] o.op = "symmetric_difference_update" -> {Out(St(SymDiffSeq(s, o.ops[1])), Ok(<<>>))}
    (* new sets (method, operator, reflected operator): the harness switches to the result and re-reads the source *)
    [] o.op = "union"        -> {Out(Term(Union(s, o.ops)), Ok(<<>>))}
    [] o.op = "intersection" -> {Out(Term(Inter(s, o.ops)), Ok(<<>>))}
    [] o.op = "difference"   -> {Out(Term(Diff(s, o.ops)), Ok(<<>>))}
    [] o.op = "symmetric_difference" -> {Out(Term(SymDiffSeq(s, o.ops[1])), Ok(<<>>))}
    (* other - self : elements of the operand not in self, in the operand's order *)
    [] o.op = "rsub"         -> {Out(Term(Dedup(SelectSeq(o.ops[1], LAMBDA e : e \notin Elems(s)), {})), Ok(<<>>))}
    [] o.op = "issubset"     -> {Out(St(s), Ok(<<B(Elems(s) \subseteq Elems(o.ops[1]))>>))}
    [] o.op = "issuperset"   -> {Out(St(s), Ok(<<B(Elems(o.ops[1]) \subseteq Elems(s))>>))}
    [] o.op = "isdisjoint"   -> {Out(St(s), Ok(<<B(Elems(s) \cap Elems(o.ops[1]) = {})>>))}
    [] o.op = "copy_ctor"    -> {Out(St(s), Ok(<<>>))}
    [] OTHER -> {}

(* all list-style and set-style reads; U atoms; slices for every start/stop in -n-1..n+1 and None, step None,1,2,3 *)
Bounds(n) == [i \in 1..(2 * n + 4) |-> IF i = 2 * n + 4 THEN NONE ELSE i - n - 2]
Steps == <<NONE, 1, 2, 3>>
Obs(st, U) ==
  LET s == st.it  n == Len(s)  bs == Bounds(n) IN
  [ iter |-> s, len |-> n, reversed |-> Rev(s),
    contains |-> [a \in 1..U |-> a \in Elems(s)],
    count |-> [a \in 1..U |-> B(a \in Elems(s))],
    index |-> [a \in 1..U |-> IF a \in Elems(s) THEN Idx(s, a) - 1 ELSE -1],
    getitem |-> [i \in 1..(2 * n) |-> PyIndex(s, i - n - 1)],
    slices |-> [c \in 1..(Len(bs) * Len(bs) * 4) |->
                  LET a == ((c - 1) \div (Len(bs) * 4)) + 1
                      b == (((c - 1) \div 4) % Len(bs)) + 1
                      k == ((c - 1) % 4) + 1
                  IN PySlice(s, bs[a], bs[b], Steps[k])],
    eq_same |-> TRUE, eq_set |-> TRUE, wf |-> TRUE ]

Injective(s) == \A i, j \in 1..Len(s) : s[i] = s[j] => i = j
=============================================================================
