INIT Init
NEXT Next
CONSTANTS A = 5  L = 4  Opnds2 = TRUE
VIEW Vw
INVARIANT EmitI
INVARIANT EmitS
ACTION_CONSTRAINT EmitE
CHECK_DEADLOCK FALSE
