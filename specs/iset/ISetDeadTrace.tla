----------------------------- MODULE ISetDeadTrace -----------------------------
(* Binds ISetDead.tla to the code's private representation, when it still has   *)
(* one of that shape: histories of add / remove / pop(i) recorded from a real   *)
(* IndexedSet together with item_list (tombstones as 0) and dead_indices after  *)
(* every call; each step must be the step ISetDead takes with the code's own    *)
(* thresholds.  A mismatch is reported as DRIFT (the mechanism is no longer the *)
(* one model-checked), not as a violation of C11: the property is about the     *)
(* public behaviour, which ISetTrace judges.                                    *)
EXTENDS ISetDead, Json, IOUtils
Traces == JsonDeserialize(IOEnv.TRACE_FILE)
VARIABLES tid, l
tvars == <<tid, l, il, dead, ref, nops>>
TInit == tid \in 1..Len(Traces) /\ l = 1 /\ il = <<>> /\ dead = <<>> /\ ref = <<>> /\ nops = 0
Act(ev) == CASE ev.op = "add" -> DoAdd(ev.x)
             [] ev.op = "remove" -> DoRemove(ev.x)
             [] ev.op = "pop" -> DoPop(ev.x)
TStep == /\ l >= 1 /\ l <= Len(Traces[tid].ev)
         /\ LET ev == Traces[tid].ev[l] IN
            \/ /\ Act(ev) /\ il' = ev.il /\ dead' = ev.dead
               /\ l' = l + 1 /\ UNCHANGED <<tid, nops>>
            \/ /\ ~(ENABLED (Act(ev) /\ il' = ev.il /\ dead' = ev.dead))
               /\ PrintT(<<"DRIFT", ToJson([tid |-> tid, l |-> l, il |-> il, dead |-> dead, ev |-> ev])>>)
               /\ l' = 0 /\ UNCHANGED <<tid, il, dead, ref, nops>>
TSpec == TInit /\ [][TStep]_tvars
Accept == (l = Len(Traces[tid].ev) + 1) => PrintT(<<"ACCEPT", tid>>)
=============================================================================
