-------------------------------- MODULE ISetDead --------------------------------
(***************************************************************************)
(* The mechanism behind setutils.IndexedSet's list side (C11): an item     *)
(* list with tombstones (0), a table of dead intervals <<start, stop>>,    *)
(* real <-> apparent index translation, merging (_add_dead), culling with  *)
(* its thresholds and right-edge trimming (_cull), compaction (_compact) - *)
(* transcribed statement by statement from the code.  TLC checks, for      *)
(* every history of add / remove / pop(i) within the bounds, that the      *)
(* structure refines the reference of ISet.tla (an injective sequence)     *)
(* and that the dead-interval table describes the tombstones exactly.      *)
(* RepairedTrim = FALSE is the trimming as it was before the repair        *)
(* (negative control: TLC must find the stale interval).                   *)
(***************************************************************************)
EXTENDS Naturals, Integers, Sequences, FiniteSets, SequencesExt, TLC
CONSTANTS Items, CompactionFactor, MaxDeadIntervals, MaxOps, RepairedTrim
VARIABLES il, dead, ref, nops
vars == <<il, dead, ref, nops>>

Live == {i \in 1..Len(il) : il[i] # 0}
RealOf(x) == CHOOSE i \in Live : il[i] = x            \* item_index_map (0-based in the code; 1-based here)
DeadCount == Len(il) - Cardinality(Live)

(* bisect_left over [start, stop] pairs, lexicographic *)
PairLess(a, b) == a[1] < b[1] \/ (a[1] = b[1] /\ a[2] < b[2])
BisectLeft(ds, c) == Cardinality({i \in 1..Len(ds) : PairLess(ds[i], c)})          \* 0-based insertion index
InsertAt0(s, i, e) == SubSeq(s, 1, i) \o <<e>> \o SubSeq(s, i + 1, Len(s))

(* _add_dead(start): start is a 0-based real index *)
AddDead(ds, start) ==
    LET stop == start + 1  cand == <<start, stop>> IN
    IF ds = <<>> THEN <<cand>>
    ELSE LET idx == BisectLeft(ds, cand)
             j == IF idx = 0 THEN Len(ds) ELSE idx          \* dints[int_idx - 1], Python wrap-around for -1
             d == ds[j] IN
         IF start <= d[1] /\ d[1] <= stop THEN [ds EXCEPT ![j] = <<start, d[2]>>]
         ELSE IF start <= d[2] /\ d[2] <= stop THEN [ds EXCEPT ![j] = <<d[1], stop>>]
         ELSE InsertAt0(ds, idx, cand)

(* _get_real_index / _get_apparent_index, 0-based *)
RECURSIVE RealIdx(_, _, _)
RealIdx(ds, k, r) == IF k > Len(ds) \/ r < ds[k][1] THEN r ELSE RealIdx(ds, k + 1, r + ds[k][2] - ds[k][1])
RECURSIVE AppIdx(_, _, _, _)
AppIdx(ds, k, idx, a) == IF k > Len(ds) \/ idx < ds[k][1] THEN a ELSE AppIdx(ds, k + 1, idx, a - (ds[k][2] - ds[k][1]))

Compacted(l) == SelectSeq(l, LAMBDA e : e # 0)
(* _cull *)
RECURSIVE DropStale(_, _)
DropStale(ds, n) == IF ds # <<>> /\ ds[Len(ds)][1] >= n THEN DropStale(SubSeq(ds, 1, Len(ds) - 1), n) ELSE ds
Cull(l, ds) ==
    IF ds = <<>> THEN [il |-> l, dead |-> ds]
    ELSE IF \A i \in 1..Len(l) : l[i] = 0 THEN [il |-> <<>>, dead |-> <<>>]
    ELSE IF Len(ds) > MaxDeadIntervals THEN [il |-> Compacted(l), dead |-> <<>>]
    ELSE IF (Len(l) - Len(Compacted(l))) * CompactionFactor > Len(l) THEN [il |-> Compacted(l), dead |-> <<>>]
    ELSE IF l[Len(l)] = 0 THEN
         LET lastlive == CHOOSE i \in 1..Len(l) : l[i] # 0 /\ \A j \in (i + 1)..Len(l) : l[j] = 0
             trimmed == SubSeq(l, 1, lastlive) IN
         IF RepairedTrim THEN [il |-> trimmed, dead |-> DropStale(ds, Len(trimmed))]
         ELSE [il |-> trimmed, dead |-> IF ds[Len(ds)][2] = Len(l) THEN SubSeq(ds, 1, Len(ds) - 1) ELSE ds]
    ELSE [il |-> l, dead |-> ds]

Init == il = <<>> /\ dead = <<>> /\ ref = <<>> /\ nops = 0
DoAdd(x) ==
          /\ x \notin {ref[i] : i \in 1..Len(ref)}
          /\ il' = Append(il, x) /\ ref' = Append(ref, x) /\ UNCHANGED dead
DoRemove(x) ==
             /\ x \in {ref[i] : i \in 1..Len(ref)}
             /\ LET r == RealOf(x)
                    l1 == [il EXCEPT ![r] = 0]
                    c == Cull(l1, AddDead(dead, r - 1)) IN
                il' = c.il /\ dead' = c.dead
             /\ ref' = SelectSeq(ref, LAMBDA e : e # x)
(* pop(i) for a valid non-negative apparent index i (0-based) *)
DoPop(i) ==
          /\ i < Len(ref)
          /\ IF i = Len(ref) - 1
             THEN LET c == Cull(SubSeq(il, 1, Len(il) - 1), dead) IN il' = c.il /\ dead' = c.dead
             ELSE LET r == RealIdx(dead, 1, i) + 1
                      l1 == [il EXCEPT ![r] = 0]
                      c == Cull(l1, AddDead(dead, r - 1)) IN
                  il' = c.il /\ dead' = c.dead
          /\ ref' = SubSeq(ref, 1, i) \o SubSeq(ref, i + 2, Len(ref))
Next == /\ nops < MaxOps /\ nops' = nops + 1
        /\ \/ \E x \in Items : DoAdd(x) \/ DoRemove(x)
           \/ \E i \in 0..(Cardinality(Items) - 1) : DoPop(i)
Spec == Init /\ [][Next]_vars

(* refinement: the live items, in order, are the reference list *)
InvRefines == Compacted(il) = ref
(* s[i] and index(x) answer as the plain list would *)
InvTranslation == /\ \A i \in 0..(Len(ref) - 1) : RealIdx(dead, 1, i) + 1 <= Len(il) /\ il[RealIdx(dead, 1, i) + 1] = ref[i + 1]
                  /\ \A i \in Live : ref[AppIdx(dead, 1, i - 1, i - 1) + 1] = il[i]
(* the interval table describes the tombstones exactly: in range, every tombstone in one interval, no live slot in any *)
InvIntervals == /\ \A k \in 1..Len(dead) : dead[k][1] < dead[k][2] /\ dead[k][2] <= Len(il)
                /\ \A i \in 1..Len(il) : (il[i] = 0) <=> (\E k \in 1..Len(dead) : dead[k][1] < i /\ i <= dead[k][2])
                /\ \A k \in 1..(Len(dead) - 1) : dead[k][2] <= dead[k + 1][1]
InvLastIsLive == il # <<>> => il[Len(il)] # 0
=============================================================================
