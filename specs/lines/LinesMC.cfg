SPECIFICATION Spec
CONSTANTS TextLen = 3  SmallLen = 4  ContentLen = 4  MaxBlock = 6
INVARIANT Laws
INVARIANT Emit
CHECK_DEADLOCK FALSE
