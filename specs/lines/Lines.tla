--------------------------------- MODULE Lines ---------------------------------
(***************************************************************************)
(* Line readers (C19).                                                     *)
(* SplitLines: str.splitlines for the line breaks \n \r \r\n \v \f \x85    *)
(* U+2028 U+2029 (code points 10 13 11 12 133 8232 8233).                  *)
(* IterSplitlines: what strutils.iter_splitlines must yield.               *)
(* RevRef: what jsonutils.reverse_iter_lines must yield for a byte content *)
(* (lines separated by \n or \r\n, last first, without their breaks).      *)
(* RevMachine: the block-wise backwards reader, one block per step.        *)
(***************************************************************************)
EXTENDS Naturals, Integers, Sequences, FiniteSets, SequencesExt

Breaks == {10, 13, 11, 12, 133, 8232, 8233}
RECURSIVE SplitFrom(_, _, _)
(* scan text from index i with the current line starting at index b *)
SplitFrom(t, b, i) ==
    IF i > Len(t) THEN (IF b <= Len(t) THEN <<SubSeq(t, b, Len(t))>> ELSE <<>>)
    ELSE IF t[i] \in Breaks
         THEN LET w == IF t[i] = 13 /\ i < Len(t) /\ t[i + 1] = 10 THEN 2 ELSE 1 IN
              <<SubSeq(t, b, i - 1)>> \o SplitFrom(t, i + w, i + w)
         ELSE SplitFrom(t, b, i + 1)
SplitLines(t) == SplitFrom(t, 1, 1)
EndsWithBreak(t) == t # <<>> /\ t[Len(t)] \in Breaks
IterSplitlines(t) == SplitLines(t) \o (IF EndsWithBreak(t) THEN << <<>> >> ELSE <<>>)

(* ---- reverse_iter_lines ---- *)
RECURSIVE SplitNL(_, _, _)
SplitNL(c, b, i) == IF i > Len(c) THEN <<SubSeq(c, b, Len(c))>>
                    ELSE IF c[i] = 10 THEN <<SubSeq(c, b, i - 1)>> \o SplitNL(c, i + 1, i + 1)
                    ELSE SplitNL(c, b, i + 1)
StripCR(l) == IF l # <<>> /\ l[Len(l)] = 13 THEN SubSeq(l, 1, Len(l) - 1) ELSE l
Rev(s) == [i \in 1..Len(s) |-> s[Len(s) + 1 - i]]
(* pieces between \n; every piece but the last was terminated by \n, so a \r before it belongs to the break *)
RevRef(c) == LET p == SplitNL(c, 1, 1)
                 q == [i \in 1..Len(p) |-> IF i < Len(p) THEN StripCR(p[i]) ELSE p[i]]
             IN Rev(q)
(* the join law the repository's own test states *)
RECURSIVE JoinNL(_)
JoinNL(ls) == IF ls = <<>> THEN <<>> ELSE IF Len(ls) = 1 THEN ls[1] ELSE ls[1] \o <<10>> \o JoinNL(Tail(ls))

(* block machine: state [pos, buff, out, first]; one backwards block read per step *)
MInit(c) == [pos |-> Len(c), buff |-> <<>>, out |-> <<>>, lastpiece |-> TRUE]
MStep(c, bs, m) ==
    LET n == IF bs < m.pos THEN bs ELSE m.pos
        cur == SubSeq(c, m.pos - n + 1, m.pos)
        b == cur \o m.buff
        p == SplitNL(b, 1, 1)
        done == [i \in 1..(Len(p) - 1) |->      \* complete lines, last first
                    LET k == Len(p) + 1 - i IN
                    IF k = Len(p) /\ m.lastpiece THEN p[k] ELSE StripCR(p[k])]
    IN [pos |-> m.pos - n, buff |-> p[1], out |-> m.out \o done, lastpiece |-> m.lastpiece /\ Len(p) = 1]
RECURSIVE MRun(_, _, _)
MRun(c, bs, m) == IF m.pos = 0 THEN m ELSE MRun(c, bs, MStep(c, bs, m))
RevMachine(c, bs) == IF c = <<>> THEN <<>>
                     ELSE LET m == MRun(c, bs, MInit(c)) IN m.out \o <<IF m.lastpiece THEN m.buff ELSE StripCR(m.buff)>>

(* ---- JSON Lines: line kinds 0 blank, 2 corrupt, >= 10 an object with that id ---- *)
Objects(ls, ignore) == SelectSeq(ls, LAMBDA k : k >= 10)      \* with ignore_errors, or without corrupt lines
=============================================================================
