SPECIFICATION Spec
CONSTANTS TextLen = 4  SmallLen = 5  ContentLen = 5  MaxBlock = 8
INVARIANT Laws
INVARIANT Emit
CHECK_DEADLOCK FALSE
