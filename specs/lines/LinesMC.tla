-------------------------------- MODULE LinesMC --------------------------------
EXTENDS Lines, TLC, Json
CONSTANTS TextLen, SmallLen, ContentLen, MaxBlock
VARIABLES kind, t, bs
vars == <<kind, t, bs>>
RECURSIVE SeqsOver(_, _)
SeqsOver(A, n) == IF n = 0 THEN {<<>>} ELSE LET s == SeqsOver(A, n - 1) IN s \cup {Append(x, u) : x \in {y \in s : Len(y) = n - 1}, u \in A}
Full == {97, 32, 50, 56, 57} \cup Breaks          \* 'a', space, '2', '8', '9' and every line break
Small == {97, 32, 50, 56, 10, 13, 8232}
(* neighbours of the line-break characters that are NOT line breaks (tab, NUL, U+0084, U+0086, U+2027, U+202A, no-break *)
(* space, U+001F), mixed with two real ones                                                                        *)
Near == {97, 9, 0, 132, 134, 8231, 8234, 160, 31, 10, 8232, 28, 29, 30}       \* 28-30: separators str.splitlines breaks at, the statement's eight forms do not
Bytes == {97, 195, 169, 10, 13}                    \* 'a', the two bytes of U+00E9, \n, \r
(* contents are built from units so that the UTF-8 pair stays together *)
Units == {<<97>>, <<195, 169>>, <<10>>, <<13, 10>>, <<13>>, <<239, 187, 191>>, <<240, 159, 152, 128>>}   \* incl. U+FEFF (3 bytes) and a 4-byte character
RECURSIVE Cat(_)
Cat(ss) == IF ss = <<>> THEN <<>> ELSE Head(ss) \o Cat(Tail(ss))
(* blanks and the other characters str.splitlines / str.strip care about (tab, form feed, U+0085, U+2028): they are *)
(* content here - only \n and \r\n separate lines, nothing is trimmed                                              *)
Units2 == {<<97>>, <<10>>, <<13, 10>>, <<32>>, <<9>>, <<12>>, <<194, 133>>, <<226, 128, 168>>, <<11>>}
Contents == {Cat(u) : u \in SeqsOver(Units, ContentLen)} \cup {Cat(u) : u \in SeqsOver(Units2, 3)}
Init == \/ /\ kind = "splitlines" /\ t \in SeqsOver(Full, TextLen) \cup SeqsOver(Small, SmallLen) \cup SeqsOver(Near, 3) /\ bs = 0
        \/ /\ kind = "revlines" /\ t \in Contents /\ bs \in 1..MaxBlock
Next == UNCHANGED vars
Spec == Init /\ [][Next]_vars
Laws == IF kind = "splitlines"
        THEN LET ls == SplitLines(t) IN
             /\ \A i \in 1..Len(ls) : \A j \in 1..Len(ls[i]) : ls[i][j] \notin Breaks      \* never a break inside a line
             /\ Len(IterSplitlines(t)) = Len(ls) + (IF EndsWithBreak(t) THEN 1 ELSE 0)
        ELSE /\ RevMachine(t, bs) = (IF t = <<>> THEN <<>> ELSE RevRef(t))                   \* block size independence
             /\ (t # <<>> => \A l \in {RevRef(t)[i] : i \in 1..Len(RevRef(t))} : 10 \notin {l[j] : j \in 1..Len(l)})
Out == IF kind = "splitlines" THEN IterSplitlines(t) ELSE RevRef(t)
(* a reader standing at offset k (preseek = FALSE) yields the lines of the first k bytes *)
Pre == IF kind = "revlines" /\ bs \in {2, 5} /\ Len(t) > 1 THEN [k \in 1..(Len(t) - 1) |-> <<k, RevRef(SubSeq(t, 1, k))>>] ELSE <<>>
Emit == PrintT(<<"T", ToJson([kind |-> kind, t |-> t, bs |-> bs, out |-> Out, pre |-> Pre])>>)
=============================================================================
