INIT Init
NEXT Next
CONSTANTS MaxLen = 5  MaxOps = 8  Pieces <- PiecesText
VIEW Vw
INVARIANT EmitI
INVARIANT EmitS
ACTION_CONSTRAINT EmitE
CHECK_DEADLOCK FALSE
