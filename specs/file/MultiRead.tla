-------------------------------- MODULE MultiRead --------------------------------
(***************************************************************************)
(* ioutils.MultiFileReader (C18, second part): reading a sequence of files *)
(* is reading their concatenation.  State [parts, pos]; the reference is   *)
(* FileModel on the concatenated content.                                  *)
(***************************************************************************)
EXTENDS FileModel
RECURSIVE Cat(_)
Cat(ss) == IF ss = <<>> THEN <<>> ELSE Head(ss) \o Cat(Tail(ss))
MOutcomes(st, o) ==
  LET f == [data |-> Cat(st.parts), pos |-> st.pos] IN
  CASE o.op = "read"  -> {Out([st EXCEPT !.pos = x.s.pos], x.r) : x \in Outcomes(f, o)}
    [] o.op = "seek0" -> {Out([st EXCEPT !.pos = 0], Ok(<<>>))}
    [] OTHER -> {}
=============================================================================
