SPECIFICATION Spec
CONSTANTS MaxLen = 5  MaxOps = 6  Pieces <- PiecesText
VIEW Vw
INVARIANT InvPos
INVARIANT InvLines
PROPERTY ActQueriesKeepState
CHECK_DEADLOCK FALSE
