------------------------------- MODULE FileModel -------------------------------
(***************************************************************************)
(* Reference semantics of an in-memory file object as io.BytesIO /         *)
(* io.StringIO give it, which ioutils.SpooledBytesIO / SpooledStringIO     *)
(* must show whatever their max_size, rolled over or not (C18).            *)
(* State [data |-> Seq(unit), pos |-> 0..Len(data)].  A unit is a byte     *)
(* (bytes flavour) or a code point (text flavour; positions count code     *)
(* points).  Unit 10 is the only line break ("\n"); 13 ("\r") is an        *)
(* ordinary unit, as in the stdlib classes with their default newline.     *)
(* "rolled over" is deliberately NOT part of the state: it is unobservable.*)
(***************************************************************************)
EXTENDS Naturals, Integers, Sequences, FiniteSets, SequencesExt

NL == 10
Min2(a, b) == IF a < b THEN a ELSE b
Rest(st) == SubSeq(st.data, st.pos + 1, Len(st.data))
(* length of the line starting at pos: up to and including the next NL, or to the end *)
LineLen(st) == LET r == Rest(st)
                   nls == {i \in 1..Len(r) : r[i] = NL}
               IN IF nls = {} THEN Len(r) ELSE CHOOSE i \in nls : \A j \in nls : i <= j
RECURSIVE Lines(_)
Lines(st) == IF st.pos = Len(st.data) THEN <<>>
             ELSE LET n == LineLen(st) IN
                  <<SubSeq(st.data, st.pos + 1, st.pos + n)>> \o Lines([st EXCEPT !.pos = @ + n])

Ok(v)  == [e |-> "ok", v |-> v]
Err(n) == [e |-> n, v |-> <<>>]
Out(s, r) == [s |-> s, r |-> r]
Op(name, n, piece) == [op |-> name, n |-> n, piece |-> piece]

Outcomes(st, o) ==
  CASE o.op = "write" ->   \* appending writes only (the property's restriction)
         IF st.pos = Len(st.data)
         (* write returns the number of units written (characters for the text flavour), as the io classes do *)
         THEN {Out([data |-> st.data \o o.piece, pos |-> Len(st.data) + Len(o.piece)], Ok(<<Len(o.piece)>>))}
         ELSE {}
    [] o.op = "read" ->      \* n = -1: everything left
         LET k == IF o.n = -1 THEN Len(Rest(st)) ELSE Min2(o.n, Len(Rest(st))) IN
         {Out([st EXCEPT !.pos = @ + k], Ok(SubSeq(st.data, st.pos + 1, st.pos + k)))}
    [] o.op = "readline" ->      \* o.n = -1: no limit; otherwise at most o.n units of the line
         LET k == IF o.n = -1 THEN LineLen(st) ELSE Min2(o.n, LineLen(st)) IN
         {Out([st EXCEPT !.pos = @ + k], Ok(SubSeq(st.data, st.pos + 1, st.pos + k)))}
    [] o.op = "next" ->
         IF st.pos = Len(st.data) THEN {Out(st, Err("StopIteration"))}
         ELSE {Out([st EXCEPT !.pos = @ + LineLen(st)], Ok(SubSeq(st.data, st.pos + 1, st.pos + LineLen(st))))}
    [] o.op \in {"readlines", "iterate"} ->
         {Out([st EXCEPT !.pos = Len(st.data)], Ok(Lines(st)))}
    [] o.op = "seek" -> IF o.n <= Len(st.data) THEN {Out([st EXCEPT !.pos = o.n], Ok(<<o.n>>))} ELSE {}
    [] o.op = "seek_end" -> {Out([st EXCEPT !.pos = Len(st.data)], Ok(<<Len(st.data)>>))}
    (* other spellings of a position inside the data: relative to the current position (o.n may be negative, o.piece  *)
    (* unused), back from the end (o.n >= 0), and the no-move seek(0, 1)                                             *)
    [] o.op = "seek_cur" -> IF st.pos + o.n >= 0 /\ st.pos + o.n <= Len(st.data) THEN {Out([st EXCEPT !.pos = st.pos + o.n], Ok(<<st.pos + o.n>>))} ELSE {}
    [] o.op = "seek_back_from_end" -> IF o.n <= Len(st.data) THEN {Out([st EXCEPT !.pos = Len(st.data) - o.n], Ok(<<Len(st.data) - o.n>>))} ELSE {}
    [] o.op = "tell" -> {Out(st, Ok(<<st.pos>>))}
    [] o.op = "getvalue" -> {Out(st, Ok(st.data))}
    [] o.op = "len" -> {Out(st, Ok(<<Len(st.data)>>))}
    [] OTHER -> {}

(* the reads that must leave the position alone, in the order the harness performs them *)
Obs(st) == [tell |-> st.pos, value |-> st.data, tell_after_getvalue |-> st.pos,
            len |-> Len(st.data), tell_after_len |-> st.pos]
=============================================================================
