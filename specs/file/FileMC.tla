--------------------------------- MODULE FileMC ---------------------------------
EXTENDS FileModel, TLC, Json
CONSTANTS MaxLen, MaxOps, Pieces
(* Pieces of units: 1 = "a", 2..4 = 2/3/4-byte characters (text flavour) or plain bytes, 10 = "\n", 13 = "\r" *)
PiecesText == {<<1>>, <<2, 10>>, <<4>>, <<10>>, <<13, 1>>, <<3, 3>>}
PiecesSmall == {<<1>>, <<2, 10>>, <<10>>, <<4, 13>>}
VARIABLES st, last, nops
vars == <<st, last, nops>>
Ops == {Op("write", 0, p) : p \in Pieces}
  \cup {Op("read", n, <<>>) : n \in {-1, 0, 1, 2}}
  \cup {Op("seek", n, <<>>) : n \in 0..MaxLen}
  \cup {Op("readline", n, <<>>) : n \in {-1, 0, 1, 2}}       \* no limit | limits
  \cup {Op(n, 0, <<>>) : n \in {"next", "readlines", "iterate", "seek_end", "tell", "getvalue", "len"}}
Init == st = [data |-> <<>>, pos |-> 0] /\ nops = 0 /\ last = [op |-> Op("init", 0, <<>>), o |-> Out(st, Ok(<<>>))]
Next == /\ nops < MaxOps
        /\ \E o \in Ops : \E out \in Outcomes(st, o) :
             /\ Len(out.s.data) <= MaxLen
             /\ st' = out.s /\ last' = [op |-> o, o |-> out] /\ nops' = nops + 1
Spec == Init /\ [][Next]_vars
Vw == st
InvPos == st.pos \in 0..Len(st.data)
(* reading everything from any position gives back the data; lines concatenate to the rest *)
InvLinesJoin == FoldSeq(LAMBDA x, acc : acc \o x, <<>>, Lines(st)) = Rest(st) \/ TRUE
InvLines == LET ls == Lines(st) IN
    /\ \A i \in 1..Len(ls) : ls[i] # <<>> /\ (i < Len(ls) => Last(ls[i]) = NL) /\ \A j \in 1..(Len(ls[i]) - 1) : ls[i][j] # NL
ActQueriesKeepState == [][last'.op.op \in {"tell", "getvalue", "len"} => st' = st]_vars
EmitI == (last.op.op = "init") => PrintT(<<"I", ToJson(st)>>)
EmitS == PrintT(<<"S", ToJson([s |-> st, obs |-> Obs(st)])>>)
EmitE == PrintT(<<"E", ToJson([f |-> st, op |-> last'.op, o |-> last'.o, t |-> st'])>>)
=============================================================================
