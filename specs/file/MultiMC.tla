--------------------------------- MODULE MultiMC ---------------------------------
(* all partitions of all contents up to MaxLen into up to 3 members (empty members *)
(* allowed); TLC checks that sized and unsized reads return each unit exactly once. *)
EXTENDS MultiRead, TLC
CONSTANTS MaxLen, Units
RECURSIVE Seqs(_)
Seqs(n) == IF n = 0 THEN {<<>>} ELSE LET s == Seqs(n - 1) IN s \cup {Append(x, u) : x \in {y \in s : Len(y) = n - 1}, u \in Units}
VARIABLES st, got
vars == <<st, got>>
Init == /\ \E a \in Seqs(MaxLen), b \in Seqs(MaxLen), c \in Seqs(MaxLen) :
             Len(a) + Len(b) + Len(c) <= MaxLen /\ st = [parts |-> <<a, b, c>>, pos |-> 0]
        /\ got = <<>>
Ops == {Op("read", n, <<>>) : n \in {-1, 1, 2, 3}} \cup {Op("seek0", 0, <<>>)}
Next == \E o \in Ops : \E out \in MOutcomes(st, o) :
           /\ st' = out.s
           /\ got' = IF o.op = "seek0" THEN <<>> ELSE got \o out.r.v
Spec == Init /\ [][Next]_vars
InvEachUnitOnce == IsPrefix(got, Cat(st.parts)) /\ Len(got) = st.pos
=============================================================================
