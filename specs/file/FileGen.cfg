INIT Init
NEXT Next
CONSTANTS MaxLen = 4  MaxOps = 8  Pieces <- PiecesSmall
VIEW Vw
INVARIANT EmitI
INVARIANT EmitS
ACTION_CONSTRAINT EmitE
CHECK_DEADLOCK FALSE
