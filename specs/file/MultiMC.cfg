SPECIFICATION Spec
CONSTANTS MaxLen = 4  Units = {1, 2, 10}
INVARIANT InvEachUnitOnce
CHECK_DEADLOCK FALSE
