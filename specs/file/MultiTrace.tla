-------------------------------- MODULE MultiTrace --------------------------------
EXTENDS MultiRead, TLC, Json, IOUtils
Traces == JsonDeserialize(IOEnv.TRACE_FILE)
VARIABLES tid, l, st
vars == <<tid, l, st>>
Init == tid \in 1..Len(Traces) /\ l = 1 /\ st = [parts |-> Traces[tid].parts, pos |-> 0]
Step == /\ l >= 1 /\ l <= Len(Traces[tid].ev)
        /\ LET ev == Traces[tid].ev[l]
               cand == MOutcomes(st, ev.op)
               ms == {o \in cand : o.r = ev.r} IN
           IF ms # {} THEN \E o \in ms : st' = o.s /\ l' = l + 1 /\ tid' = tid
           ELSE /\ PrintT(<<"REJECT", ToJson([tid |-> tid, l |-> l, st |-> st, exp |-> {[r |-> o.r] : o \in cand}])>>)
                /\ l' = 0 /\ UNCHANGED <<tid, st>>
Spec == Init /\ [][Step]_vars
Accept == (l = Len(Traces[tid].ev) + 1) => PrintT(<<"ACCEPT", tid>>)
=============================================================================
