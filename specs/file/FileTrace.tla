-------------------------------- MODULE FileTrace --------------------------------
(* Validates recorded histories of Spooled*IO objects (and the stdlib objects run   *)
(* beside them) against FileModel. Each event: the call, its result, and the reads  *)
(* tell / getvalue / tell / len / tell performed right after it.                    *)
EXTENDS FileModel, TLC, Json, IOUtils
Traces == JsonDeserialize(IOEnv.TRACE_FILE)
VARIABLES tid, l, st
vars == <<tid, l, st>>
Init == tid \in 1..Len(Traces) /\ l = 1 /\ st = [data |-> <<>>, pos |-> 0]
Step == /\ l >= 1 /\ l <= Len(Traces[tid].ev)
        /\ LET ev == Traces[tid].ev[l]
               cand == Outcomes(st, ev.op)
               (* "quiet" events were recorded without the intrusive reads (getvalue and len reposition the stream *)
               (* and reset the decoder): only tell is compared, so consecutive calls act on live read-ahead state *)
               ms == {o \in cand : o.r = ev.r /\ (IF ev.quiet THEN Obs(o.s).tell = ev.obs.tell ELSE Obs(o.s) = ev.obs)} IN
           IF ms # {} THEN \E o \in ms : st' = o.s /\ l' = l + 1 /\ tid' = tid
           ELSE /\ PrintT(<<"REJECT", ToJson([tid |-> tid, l |-> l, st |-> st, exp |-> {[r |-> o.r, obs |-> Obs(o.s)] : o \in cand}])>>)
                /\ l' = 0 /\ UNCHANGED <<tid, st>>
Spec == Init /\ [][Step]_vars
Accept == (l = Len(Traces[tid].ev) + 1) => PrintT(<<"ACCEPT", tid>>)
=============================================================================
