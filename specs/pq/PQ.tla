---------------------------------- MODULE PQ ----------------------------------
(***************************************************************************)
(* Reference semantics of queueutils.HeapPriorityQueue /                   *)
(* SortedPriorityQueue (C10).                                              *)
(* State: the live entries [t |-> task, p |-> priority] in ARRIVAL order   *)
(* (re-adding a task removes its entry and appends a new one).             *)
(* Priority 99 stands for None (effective priority 0).  The next task out  *)
(* is the one with the highest effective priority, earliest arrival first. *)
(***************************************************************************)
EXTENDS Naturals, Integers, Sequences, FiniteSets, SequencesExt

NONE == 99
Eff(p) == IF p = NONE THEN 0 ELSE p
Tasks(q) == {q[i].t : i \in 1..Len(q)}
Without(q, t) == SelectSeq(q, LAMBDA e : e.t # t)
(* index of the entry that goes out next *)
BestIdx(q) == CHOOSE i \in 1..Len(q) : \A j \in 1..Len(q) :
                  Eff(q[i].p) > Eff(q[j].p) \/ (Eff(q[i].p) = Eff(q[j].p) /\ i <= j)
RECURSIVE Drain(_)
Drain(q) == IF q = <<>> THEN <<>> ELSE <<q[BestIdx(q)].t>> \o Drain(RemoveAt(q, BestIdx(q)))

Ok(v)  == [e |-> "ok", v |-> v]
Err(n) == [e |-> n, v |-> <<>>]
Op(name, t, p, d) == [op |-> name, t |-> t, p |-> p, d |-> d]    \* d = -1: no default given
Out(q, r) == [s |-> q, r |-> r]

Outcomes(q, o) ==
  CASE o.op = "add"    -> {Out(Append(Without(q, o.t), [t |-> o.t, p |-> o.p]), Ok(<<>>))}
    [] o.op = "remove" -> IF o.t \in Tasks(q) THEN {Out(Without(q, o.t), Ok(<<>>))} ELSE {Out(q, Err("KeyError"))}
    [] o.op = "pop"    -> IF q = <<>> THEN (IF o.d = -1 THEN {Out(q, Err("IndexError"))} ELSE {Out(q, Ok(<<o.d>>))})
                          ELSE {Out(RemoveAt(q, BestIdx(q)), Ok(<<q[BestIdx(q)].t>>))}
    [] o.op = "peek"   -> IF q = <<>> THEN (IF o.d = -1 THEN {Out(q, Err("IndexError"))} ELSE {Out(q, Ok(<<o.d>>))})
                          ELSE {Out(q, Ok(<<q[BestIdx(q)].t>>))}
    [] o.op = "len"    -> {Out(q, Ok(<<Len(q)>>))}
    [] OTHER -> {}

(* reads: len, and the complete service order (obtained by the harness by popping until empty) *)
Obs(q) == [len |-> Len(q), drain |-> Drain(q)]

(* the clauses: highest first, FIFO among equals, only live tasks, each once *)
DrainSorted(q) == LET d == Drain(q)
                      pr(t) == Eff(q[CHOOSE i \in 1..Len(q) : q[i].t = t].p)
                      pos(t) == CHOOSE i \in 1..Len(q) : q[i].t = t IN
    /\ Len(d) = Len(q) /\ {d[i] : i \in 1..Len(d)} = Tasks(q)
    /\ \A i, j \in 1..Len(d) : i < j => (pr(d[i]) > pr(d[j]) \/ (pr(d[i]) = pr(d[j]) /\ pos(d[i]) < pos(d[j])))
Unique(q) == \A i, j \in 1..Len(q) : q[i].t = q[j].t => i = j
=============================================================================
