---------------------------------- MODULE PQ ----------------------------------
(***************************************************************************)
(* Reference semantics of queueutils.HeapPriorityQueue /                   *)
(* SortedPriorityQueue (C10).                                              *)
(* State: the live entries [t |-> task, p |-> priority] in ARRIVAL order   *)
(* (re-adding a task removes its entry and appends a new one).             *)
(* Priority 99 stands for None (effective priority 0).  The next task out  *)
(* is the one with the highest effective priority, earliest arrival first. *)
(***************************************************************************)
EXTENDS Naturals, Integers, Sequences, FiniteSets, SequencesExt, TLC

NONE == 99
Eff(p) == IF p = NONE THEN 0 ELSE p
Tasks(q) == {q[i].t : i \in 1..Len(q)}
Without(q, t) == SelectSeq(q, LAMBDA e : e.t # t)
(* index of the entry that goes out next *)
BestIdx(q) == CHOOSE i \in 1..Len(q) : \A j \in 1..Len(q) :
                  Eff(q[i].p) > Eff(q[j].p) \/ (Eff(q[i].p) = Eff(q[j].p) /\ i <= j)
RECURSIVE Drain(_)
Drain(q) == IF q = <<>> THEN <<>> ELSE <<q[BestIdx(q)].t>> \o Drain(RemoveAt(q, BestIdx(q)))

Ok(v)  == [e |-> "ok", v |-> v]
Err(n) == [e |-> n, v |-> <<>>]
Op(name, t, p, d) == [op |-> name, t |-> t, p |-> p, d |-> d]    \* d = -1: no default given
Out(q, r) == [s |-> q, r |-> r]

Outcomes(q, o) ==
  CASE o.op = "add"    -> {Out(Append(Without(q, o.t), [t |-> o.t, p |-> o.p]), Ok(<<>>))}
    [] o.op = "remove" -> IF o.t \in Tasks(q) THEN {Out(Without(q, o.t), Ok(<<>>))} ELSE {Out(q, Err("KeyError"))}
    [] o.op = "pop"    -> IF q = <<>> THEN (IF o.d = -1 THEN {Out(q, Err("IndexError"))} ELSE {Out(q, Ok(<<o.d>>))})
                          ELSE {Out(RemoveAt(q, BestIdx(q)), Ok(<<q[BestIdx(q)].t>>))}
    [] o.op = "peek"   -> IF q = <<>> THEN (IF o.d = -1 THEN {Out(q, Err("IndexError"))} ELSE {Out(q, Ok(<<o.d>>))})
                          ELSE {Out(q, Ok(<<q[BestIdx(q)].t>>))}
    [] o.op = "len"    -> {Out(q, Ok(<<Len(q)>>))}
    [] OTHER -> {}

(* ---- the same semantics for queues of tens of thousands of entries, in a form TLC can evaluate: the service order ----
   is the arrival sequence sorted by (effective priority descending, arrival ascending) - one SortSeq instead of   *)
(* repeated selection of the best entry                                                                            *)
Indexed(q) == [i \in 1..Len(q) |-> [t |-> q[i].t, e |-> Eff(q[i].p), i |-> i]]
ServiceOrder(q) == LET s == SortSeq(Indexed(q), LAMBDA a, b : a.e > b.e \/ (a.e = b.e /\ a.i < b.i)) IN [i \in 1..Len(s) |-> s[i].t]
SeqToSet(s) == {s[i] : i \in 1..Len(s)}
(* bulk_add: new entries appended; a task already present is re-added (its old entry goes, the new one is last) *)
BulkAdd(q, items) == LET ts == {items[i][1] : i \in 1..Len(items)} IN
                     SelectSeq(q, LAMBDA e : e.t \notin ts) \o [i \in 1..Len(items) |-> [t |-> items[i][1], p |-> items[i][2]]]
BulkRemove(q, ts) == LET S == SeqToSet(ts) IN SelectSeq(q, LAMBDA e : e.t \notin S)
(* n pops in a row: the first n of the service order go, the rest stays in arrival order *)
PopN(q, n) == LET so == ServiceOrder(q)  out == SubSeq(so, 1, n)  S == SeqToSet(out) IN
              [popped |-> out, rest |-> SelectSeq(q, LAMBDA e : e.t \notin S)]

(* reads: len, and the complete service order (obtained by the harness by popping until empty) *)
Obs(q) == [len |-> Len(q), drain |-> Drain(q)]

(* the clauses: highest first, FIFO among equals, only live tasks, each once *)
DrainSorted(q) == LET d == Drain(q)
                      pr(t) == Eff(q[CHOOSE i \in 1..Len(q) : q[i].t = t].p)
                      pos(t) == CHOOSE i \in 1..Len(q) : q[i].t = t IN
    /\ Len(d) = Len(q) /\ {d[i] : i \in 1..Len(d)} = Tasks(q)
    /\ \A i, j \in 1..Len(d) : i < j => (pr(d[i]) > pr(d[j]) \/ (pr(d[i]) = pr(d[j]) /\ pos(d[i]) < pos(d[j])))
Unique(q) == \A i, j \in 1..Len(q) : q[i].t = q[j].t => i = j
=============================================================================
