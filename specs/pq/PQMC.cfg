SPECIFICATION Spec
CONSTANTS K = 3  Prios <- PriosDef
VIEW Vw
INVARIANT InvDrain
INVARIANT InvTotal
PROPERTY ActPopIsPeek
CHECK_DEADLOCK FALSE
