SPECIFICATION Spec
CONSTANTS K = 4  Prios <- PriosDef
VIEW Vw
INVARIANT InvDrain
INVARIANT InvTotal
PROPERTY ActPopIsPeek
CHECK_DEADLOCK FALSE
