-------------------------------- MODULE PQTrace --------------------------------
(* Validates recorded runs of both queue classes against PQ.tla. Each event is  *)
(* one call with its result and len(); the final event carries the drain order. *)
EXTENDS PQ, TLC, Json, IOUtils
Traces == JsonDeserialize(IOEnv.TRACE_FILE)
VARIABLES tid, l, st
vars == <<tid, l, st>>
Init == tid \in 1..Len(Traces) /\ l = 1 /\ st = <<>>
Step == /\ l >= 1 /\ l <= Len(Traces[tid].ev)
        /\ LET ev == Traces[tid].ev[l] IN
           IF ev.op.op = "drain"
           THEN IF ev.drain = Drain(st) THEN l' = l + 1 /\ st' = <<>> /\ tid' = tid
                ELSE /\ PrintT(<<"REJECT", ToJson([tid |-> tid, l |-> l, st |-> st, exp |-> {[drain |-> Drain(st)]}])>>)
                     /\ l' = 0 /\ UNCHANGED <<tid, st>>
           ELSE LET cand == Outcomes(st, ev.op)
                    ms == {o \in cand : o.r = ev.r /\ Len(o.s) = ev.len} IN
                IF ms # {} THEN \E o \in ms : st' = o.s /\ l' = l + 1 /\ tid' = tid
                ELSE /\ PrintT(<<"REJECT", ToJson([tid |-> tid, l |-> l, st |-> st, exp |-> {[r |-> o.r, len |-> Len(o.s)] : o \in cand}])>>)
                     /\ l' = 0 /\ UNCHANGED <<tid, st>>
Spec == Init /\ [][Step]_vars
Accept == (l = Len(Traces[tid].ev) + 1) => PrintT(<<"ACCEPT", tid>>)
=============================================================================
