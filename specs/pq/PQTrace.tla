-------------------------------- MODULE PQTrace --------------------------------
(* Validates recorded runs of both queue classes against PQ.tla. Each event is  *)
(* one call with its result and len(); the final event carries the drain order. *)
EXTENDS PQ, TLC, Json, IOUtils
Traces == JsonDeserialize(IOEnv.TRACE_FILE)
VARIABLES tid, l, st
vars == <<tid, l, st>>
Init == tid \in 1..Len(Traces) /\ l = 1 /\ st = <<>>
Step == /\ l >= 1 /\ l <= Len(Traces[tid].ev)
        /\ LET ev == Traces[tid].ev[l] IN
           IF ev.op.op = "drain"
           THEN IF ev.drain = Drain(st) THEN l' = l + 1 /\ st' = <<>> /\ tid' = tid
                ELSE /\ PrintT(<<"REJECT", ToJson([tid |-> tid, l |-> l, st |-> st, exp |-> {[drain |-> Drain(st)]}])>>)
                     /\ l' = 0 /\ UNCHANGED <<tid, st>>
           ELSE IF ev.op.op \in {"bulk_add", "bulk_remove", "pop_n"}
           (* queues of tens of thousands of entries: whole batches of calls per event (tasks within a batch distinct) *)
           THEN LET nxt == CASE ev.op.op = "bulk_add" -> [ok |-> ev.len = Len(BulkAdd(st, ev.items)), s |-> BulkAdd(st, ev.items)]
                             [] ev.op.op = "bulk_remove" -> [ok |-> ev.len = Len(BulkRemove(st, ev.tasks)), s |-> BulkRemove(st, ev.tasks)]
                             [] OTHER -> LET pn == PopN(st, Len(ev.popped)) IN [ok |-> ev.popped = pn.popped /\ ev.len = Len(pn.rest), s |-> pn.rest] IN
                IF nxt.ok THEN l' = l + 1 /\ st' = nxt.s /\ tid' = tid
                ELSE /\ PrintT(<<"REJECT", ToJson([tid |-> tid, l |-> l, st |-> <<>>, exp |-> {[len |-> Len(nxt.s)]}])>>)
                     /\ l' = 0 /\ UNCHANGED <<tid, st>>
           ELSE LET cand == Outcomes(st, ev.op)
                    ms == {o \in cand : o.r = ev.r /\ Len(o.s) = ev.len} IN
                IF ms # {} THEN \E o \in ms : st' = o.s /\ l' = l + 1 /\ tid' = tid
                ELSE /\ PrintT(<<"REJECT", ToJson([tid |-> tid, l |-> l, st |-> st, exp |-> {[r |-> o.r, len |-> Len(o.s)] : o \in cand}])>>)
                     /\ l' = 0 /\ UNCHANGED <<tid, st>>
Spec == Init /\ [][Step]_vars
Accept == (l = Len(Traces[tid].ev) + 1) => PrintT(<<"ACCEPT", tid>>)
=============================================================================
