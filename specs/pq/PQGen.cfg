INIT Init
NEXT Next
CONSTANTS K = 3  Prios <- PriosDef
VIEW Vw
INVARIANT EmitI
INVARIANT EmitS
ACTION_CONSTRAINT EmitE
CHECK_DEADLOCK FALSE
