--------------------------------- MODULE PQMC ---------------------------------
EXTENDS PQ, TLC, Json
CONSTANTS K, Prios
PriosDef == {-1, 0, 2, 99}
Ops == {Op("add", t, p, 0) : t \in 1..K, p \in Prios}
  \cup {Op("remove", t, 0, 0) : t \in 1..K}
  \cup {Op(n, 0, 0, d) : n \in {"pop", "peek"}, d \in {-1, 77}}
  \cup {Op("len", 0, 0, 0)}
VARIABLES st, last
vars == <<st, last>>
Init == st = <<>> /\ last = [op |-> Op("init", 0, 0, 0), o |-> Out(<<>>, Ok(<<>>))]
Next == \E o \in Ops : \E out \in Outcomes(st, o) : st' = out.s /\ last' = [op |-> o, o |-> out]
Spec == Init /\ [][Next]_vars
Vw == st
InvDrain == DrainSorted(st) /\ Unique(st)
InvTotal == \A o \in Ops : Outcomes(st, o) # {}
ActPopIsPeek == [][(last'.op.op = "pop" /\ st # <<>>) => last'.o.r.v = <<Drain(st)[1]>> /\ Drain(st') = Tail(Drain(st))]_vars
EmitI == (last.op.op = "init") => PrintT(<<"I", ToJson(st)>>)
EmitS == PrintT(<<"S", ToJson([s |-> st, obs |-> Obs(st)])>>)
EmitE == PrintT(<<"E", ToJson([f |-> st, op |-> last'.op, o |-> last'.o, t |-> st'])>>)
=============================================================================
