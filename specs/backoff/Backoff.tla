-------------------------------- MODULE Backoff --------------------------------
(***************************************************************************)
(* iterutils.backoff / backoff_iter (C15) over exact rationals <<n, d>>.   *)
(* Reference: first value = start (a start of 0 is followed by min(1,stop))*)
(* then each value is the previous times factor, capped at stop.           *)
(***************************************************************************)
EXTENDS Naturals, Integers, Sequences, FiniteSets

RECURSIVE GCD(_, _)
GCD(a, b) == IF b = 0 THEN a ELSE GCD(b, a % b)
Abs(x) == IF x < 0 THEN 0 - x ELSE x
Norm(q) == LET g == GCD(Abs(q[1]), q[2]) IN IF g = 0 THEN q ELSE <<q[1] \div g, q[2] \div g>>
Mul(a, b) == Norm(<<a[1] * b[1], a[2] * b[2]>>)
Sub(a, b) == Norm(<<a[1] * b[2] - b[1] * a[2], a[2] * b[2]>>)
Less(a, b) == a[1] * b[2] < b[1] * a[2]
Leq(a, b) == a[1] * b[2] <= b[1] * a[2]
Eq(a, b) == a[1] * b[2] = b[1] * a[2]
MinQ(a, b) == IF Less(a, b) THEN a ELSE b
Zero == <<0, 1>>
One == <<1, 1>>

NextVal(v, stop, factor) == IF v[1] = 0 THEN MinQ(One, stop) ELSE MinQ(Mul(v, factor), stop)
RECURSIVE Vals(_, _, _, _)
Vals(v, stop, factor, count) == IF count = 0 THEN <<>> ELSE <<v>> \o Vals(NextVal(v, stop, factor), stop, factor, count - 1)
(* smallest length whose last value is stop (factor > 1, or start = stop) *)
RECURSIVE LenToStop(_, _, _, _)
LenToStop(v, stop, factor, fuel) == IF Eq(v, stop) \/ fuel = 0 THEN 1 ELSE 1 + LenToStop(NextVal(v, stop, factor), stop, factor, fuel - 1)

Valid(start, stop, factor) == start[1] >= 0 /\ Leq(One, factor) /\ stop[1] > 0 /\ Leq(start, stop)
ValidJitter(j) == Leq(<<-1, 1>>, j) /\ Leq(j, One)
(* jittered value for the un-jittered b and a draw r in [0, 1) *)
Jittered(b, j, r) == Sub(b, Mul(Mul(b, j), r))

(* ---- laws ---- *)
LawSeq(start, stop, factor, count) == LET s == Vals(start, stop, factor, count) IN
    /\ Len(s) = count
    /\ (count > 0 => Eq(s[1], start))
    /\ \A i \in 1..Len(s) : Leq(s[i], stop)
    /\ \A i \in 1..(Len(s) - 1) : Leq(s[i], s[i + 1])
    /\ \A i \in 1..(Len(s) - 1) : s[i][1] # 0 =>
          (IF Leq(Mul(s[i], factor), stop) THEN Eq(s[i + 1], Mul(s[i], factor)) ELSE Eq(s[i + 1], stop))
    /\ (count > 1 /\ start[1] = 0 => Eq(s[2], MinQ(One, stop)))
LawJitter(b, j, r) == LET x == Jittered(b, j, r)  other == Sub(b, Mul(b, j)) IN
    (Leq(b, x) /\ Leq(x, other)) \/ (Leq(other, x) /\ Leq(x, b))
=============================================================================
