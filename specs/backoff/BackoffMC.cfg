SPECIFICATION Spec
INVARIANT Laws
INVARIANT Emit
CHECK_DEADLOCK FALSE
