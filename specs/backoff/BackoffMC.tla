------------------------------- MODULE BackoffMC -------------------------------
EXTENDS Backoff, TLC, Json
VARIABLES kind, start, stop, factor, count, jit, draw
vars == <<kind, start, stop, factor, count, jit, draw>>
Starts == {<<0, 1>>, <<1, 4>>, <<1, 2>>, <<1, 1>>, <<3, 1>>, <<10, 1>>}
Stops == {<<1, 4>>, <<1, 2>>, <<1, 1>>, <<3, 1>>, <<8, 1>>, <<10, 1>>, <<100, 1>>, <<125, 1>>, <<1000, 1>>, <<1024, 1>>}
Factors == {<<1, 1>>, <<3, 2>>, <<2, 1>>, <<5, 1>>, <<10, 1>>}
Counts == {0, 1, 2, 5, 9}
Jits == {<<1, 2>>, <<-1, 2>>, <<1, 1>>, <<-1, 1>>, <<1, 4>>}
Draws == {<<0, 1>>, <<1, 2>>, <<1023, 1024>>}
Small(st, sp, f) == LenToStop(st, sp, f, 14) <= 13       \* keeps every number far below 2^31
Init ==
  \/ /\ kind = "counted" /\ start \in Starts /\ stop \in Stops /\ factor \in Factors /\ count \in Counts
     /\ Valid(start, stop, factor) /\ (Less(One, factor) => Small(start, stop, factor)) /\ jit = Zero /\ draw = Zero
  \/ /\ kind = "default" /\ start \in Starts /\ stop \in Stops /\ factor \in Factors \ {One} /\ count = 0
     /\ Valid(start, stop, factor) /\ Small(start, stop, factor) /\ jit = Zero /\ draw = Zero
  \/ /\ kind = "jitter" /\ start \in {<<1, 2>>, <<1, 1>>, <<0, 1>>} /\ stop \in {<<8, 1>>, <<1, 1>>, <<10, 1>>, <<3, 1>>}
     /\ factor \in {<<2, 1>>} /\ count \in {4, 8}
     /\ Valid(start, stop, factor) /\ jit \in Jits /\ draw \in Draws
  \/ /\ kind = "invalid" /\ count \in {-1, 3}
     /\ \E p \in {<< <<-1, 1>>, One, <<2, 1>> >>, << One, One, <<1, 2>> >>, << One, Zero, <<2, 1>> >>, << Zero, Zero, <<2, 1>> >>,
                  << <<3, 1>>, One, <<2, 1>> >>, << One, <<3, 1>>, <<2, 1>> >>} :
           start = p[1] /\ stop = p[2] /\ factor = p[3] /\ (count = -1 \/ ~Valid(start, stop, factor))
     /\ jit = Zero /\ draw = Zero
  \/ /\ kind = "invalid_jitter" /\ start = One /\ stop = <<3, 1>> /\ factor = <<2, 1>> /\ count = 2
     /\ jit \in {<<3, 2>>, <<-2, 1>>} /\ draw = Zero
Next == UNCHANGED vars
Spec == Init /\ [][Next]_vars
DefaultLen == LenToStop(start, stop, factor, 14)
Out == CASE kind = "counted" -> Vals(start, stop, factor, count)
         [] kind = "default" -> Vals(start, stop, factor, DefaultLen)
         [] kind = "jitter" -> LET b == Vals(start, stop, factor, count) IN [i \in 1..Len(b) |-> Jittered(b[i], jit, draw)]
         [] OTHER -> <<>>
Laws == CASE kind = "counted" -> LawSeq(start, stop, factor, count)
          [] kind = "default" -> LawSeq(start, stop, factor, DefaultLen) /\ Eq(Vals(start, stop, factor, DefaultLen)[DefaultLen], stop)
                                 /\ (DefaultLen > 1 => ~Eq(Vals(start, stop, factor, DefaultLen)[DefaultLen - 1], stop))
          [] kind = "jitter" -> \A i \in 1..count : LawJitter(Vals(start, stop, factor, count)[i], jit, draw)
          [] OTHER -> TRUE
(* for jitter rows the un-jittered values and the other end of the interval go out too: the code is judged by the *)
(* interval the property states (whatever the draws), not by one formula                                          *)
Base == IF kind = "jitter" THEN Vals(start, stop, factor, count) ELSE <<>>
Emit == PrintT(<<"T", ToJson([kind |-> kind, start |-> start, stop |-> stop, factor |-> factor, count |-> count, jit |-> jit,
                             draw |-> draw, out |-> Out, base |-> Base, other |-> [i \in 1..Len(Base) |-> Sub(Base[i], Mul(Base[i], jit))]])>>)
=============================================================================
