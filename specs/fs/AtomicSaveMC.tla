----------------------------- MODULE AtomicSaveMC -----------------------------
(***************************************************************************)
(* Design model of AtomicSaver: the sequence of calls the code makes, one  *)
(* action per call, for every configuration, body (0..2 writes, optional   *)
(* raise), initial destination / part file, and every placement of up to   *)
(* MaxFaults failing calls; user-space buffer (ubuf) vs. what the OS holds *)
(* (part.size), with the buffer spilling to the OS at arbitrary moments.   *)
(* Every prefix of every generated event sequence is handed to the judge   *)
(* of AtomicSave.tla: each state is a crash point.                         *)
(* Negative controls: DoFlush / DoFsync = FALSE, WriteInPlace = TRUE.      *)
(***************************************************************************)
EXTENDS AtomicSave, TLC
CONSTANTS DoFlush, DoFsync, WriteInPlace, MaxFaults

VARIABLES cfg, init, nwrites, raise_at,      \* scenario
          pc, evs, dest, part, ubuf, wi, nfaults, raised, body_raised
vars == <<cfg, init, nwrites, raise_at, pc, evs, dest, part, ubuf, wi, nfaults, raised, body_raised>>

OLDMODE == 416     \* 0o640
Cfgs == [overwrite : BOOLEAN, overwrite_part : BOOLEAN, rm_part_on_exc : BOOLEAN, perms : {-1, 0, 384}, umask_default : {420}]
Inits == [dest : {[st |-> "absent", mode |-> 0], [st |-> "old", mode |-> OLDMODE]},
          part : {[st |-> "absent", size |-> 0], [st |-> "stale", size |-> 3]}]

Init == /\ cfg \in Cfgs /\ init \in Inits
        /\ nwrites \in 0..2 /\ raise_at \in {-1} \cup 0..2 /\ raise_at <= nwrites
        /\ pc = "lexists" /\ evs = <<>> /\ dest = init.dest /\ part = init.part
        /\ ubuf = 0 /\ wi = 0 /\ nfaults = 0 /\ raised = FALSE /\ body_raised = FALSE

Ev(name, tgt, faulted, n, d, p) == [name |-> name, target |-> tgt, faulted |-> faulted, n |-> n, dest |-> d, part |-> p]
Total == nwrites
ModeFor == IF cfg.perms >= 0 THEN cfg.perms ELSE IF init.dest.st = "old" THEN OLDMODE ELSE cfg.umask_default

(* one call: either it works (effect) or, within the fault budget, it fails (no effect) and control goes to `onfail` *)
Call(name, tgt, n, d2, p2, u2, next, onfail) ==
    \/ /\ dest' = d2 /\ part' = p2 /\ ubuf' = u2
       /\ evs' = Append(evs, Ev(name, tgt, FALSE, n, d2, p2))
       /\ pc' = next /\ UNCHANGED <<nfaults, raised>>
    \/ /\ nfaults < MaxFaults /\ nfaults' = nfaults + 1
       /\ evs' = Append(evs, Ev(name, tgt, TRUE, n, dest, part))
       /\ pc' = onfail /\ raised' = TRUE /\ UNCHANGED <<dest, part, ubuf>>

Keep == UNCHANGED <<cfg, init, nwrites, raise_at>>
Gone == [st |-> "absent", size |-> 0]

Step ==
  \/ /\ pc = "lexists"       \* refusal when overwrite is off and the destination exists
     /\ IF dest.st # "absent" /\ ~cfg.overwrite
        THEN pc' = "end" /\ raised' = TRUE /\ UNCHANGED <<evs, dest, part, ubuf, nfaults>>
        ELSE pc' = (IF cfg.overwrite_part /\ part.st # "absent" THEN "unlink_stale" ELSE "open") /\ UNCHANGED <<evs, dest, part, ubuf, nfaults, raised>>
     /\ UNCHANGED <<wi, body_raised>> /\ Keep
  \/ /\ pc = "unlink_stale" /\ Call("unlink", "part", 0, dest, Gone, ubuf, "open", "end")
     /\ UNCHANGED <<wi, body_raised>> /\ Keep
  \/ /\ pc = "open"          \* O_CREAT | O_EXCL
     /\ IF part.st # "absent"
        THEN /\ evs' = Append(evs, Ev("open", "part", TRUE, 0, dest, part)) /\ pc' = "end" /\ raised' = TRUE
             /\ UNCHANGED <<dest, part, ubuf, nfaults>>
        ELSE Call("open", "part", 0, IF WriteInPlace THEN [st |-> "other", mode |-> ModeFor] ELSE dest,
                  [st |-> "file", size |-> 0], 0, "fdopen", "end")
     /\ UNCHANGED <<wi, body_raised>> /\ Keep
  \/ /\ pc = "fdopen" /\ Call("fdopen", "part", 0, dest, part, ubuf, IF cfg.perms >= 0 \/ init.dest.st = "old" THEN "chmod" ELSE "body", "setup_cleanup")
     /\ UNCHANGED <<wi, body_raised>> /\ Keep
  \/ /\ pc = "chmod" /\ Call("chmod", "part", 0, dest, part, ubuf, "body", "setup_cleanup")
     /\ UNCHANGED <<wi, body_raised>> /\ Keep
  \/ /\ pc = "setup_cleanup"    \* close + (rm_part_on_exc) unlink, errors ignored
     /\ IF cfg.rm_part_on_exc
        THEN \/ /\ evs' = Append(evs, Ev("unlink", "part", FALSE, 0, dest, Gone)) /\ part' = Gone /\ UNCHANGED nfaults
             \/ /\ nfaults < MaxFaults /\ nfaults' = nfaults + 1
                /\ evs' = Append(evs, Ev("unlink", "part", TRUE, 0, dest, part)) /\ UNCHANGED part
        ELSE UNCHANGED <<evs, part, nfaults>>
     /\ pc' = "end" /\ UNCHANGED <<dest, ubuf, raised, wi, body_raised>> /\ Keep
  \/ /\ pc = "body"
     /\ IF raise_at = wi THEN /\ body_raised' = TRUE /\ raised' = TRUE /\ pc' = "flush" /\ UNCHANGED <<evs, dest, part, ubuf, nfaults, wi>>
        ELSE IF wi = nwrites THEN /\ pc' = "flush" /\ UNCHANGED <<evs, dest, part, ubuf, nfaults, wi, raised, body_raised>>
        ELSE /\ Call("write", "part", 1, dest, part, ubuf + 1, "body", "flush") /\ wi' = wi + 1 /\ UNCHANGED body_raised
     /\ Keep
  \/ /\ pc = "body" /\ ubuf > 0       \* the buffer spills to the OS whenever it likes
     /\ part' = [part EXCEPT !.size = @ + ubuf] /\ ubuf' = 0
     /\ IF WriteInPlace THEN dest' = [dest EXCEPT !.st = IF part'.size = Total THEN "new" ELSE "other"] ELSE UNCHANGED dest
     /\ UNCHANGED <<evs, pc, wi, nfaults, raised, body_raised>> /\ Keep
  \/ /\ pc = "flush"
     /\ IF DoFlush THEN Call("flush", "part", 0, IF WriteInPlace THEN [dest EXCEPT !.st = IF part.size + ubuf = Total THEN "new" ELSE "other"] ELSE dest,
                             [part EXCEPT !.size = @ + ubuf], 0, "fsync", "exit_cleanup")
        ELSE pc' = "fsync" /\ UNCHANGED <<evs, dest, part, ubuf, nfaults, raised>>
     /\ UNCHANGED <<wi, body_raised>> /\ Keep
  \/ /\ pc = "fsync"
     /\ IF DoFsync THEN Call("fsync", "part", 0, dest, part, ubuf, "close", "exit_cleanup")
        ELSE pc' = "close" /\ UNCHANGED <<evs, dest, part, ubuf, nfaults, raised>>
     /\ UNCHANGED <<wi, body_raised>> /\ Keep
  \/ /\ pc = "close"          \* close flushes what is left (relevant only when DoFlush is off)
     /\ Call("close", "part", 0, dest, [part EXCEPT !.size = @ + ubuf], 0, IF raised THEN "exit_cleanup" ELSE "publish", "exit_cleanup")
     /\ UNCHANGED <<wi, body_raised>> /\ Keep
  \/ /\ pc = "exit_cleanup"
     /\ IF cfg.rm_part_on_exc
        THEN \/ /\ evs' = Append(evs, Ev("unlink", "part", FALSE, 0, dest, Gone)) /\ part' = Gone /\ UNCHANGED nfaults
             \/ /\ nfaults < MaxFaults /\ nfaults' = nfaults + 1
                /\ evs' = Append(evs, Ev("unlink", "part", TRUE, 0, dest, part)) /\ UNCHANGED part
        ELSE UNCHANGED <<evs, part, nfaults>>
     /\ pc' = "end" /\ UNCHANGED <<dest, ubuf, raised, wi, body_raised>> /\ Keep
  \/ /\ pc = "publish"
     /\ IF WriteInPlace THEN pc' = "end" /\ UNCHANGED <<evs, dest, part, ubuf, nfaults, raised>>
        ELSE IF cfg.overwrite
        THEN Call("rename", "dest", 0, [st |-> "new", mode |-> ModeFor], Gone, ubuf, "end", "exit_cleanup")
        ELSE Call("link", "dest", 0, [st |-> "new", mode |-> ModeFor], part, ubuf, "unlink_after_link", "exit_cleanup")
     /\ UNCHANGED <<wi, body_raised>> /\ Keep
  \/ /\ pc = "unlink_after_link" /\ Call("unlink", "part", 0, dest, Gone, ubuf, "end", "exit_cleanup")
     /\ UNCHANGED <<wi, body_raised>> /\ Keep

Spec == Init /\ [][Step]_vars

AsTrace == [cfg |-> cfg, init |-> init, total |-> Total,
            ev |-> Append(evs, Ev("end", "", FALSE, 0, dest, part)),
            raised |-> raised, body_raised |-> body_raised, retried |-> FALSE, retry_ok |-> FALSE, retry_mode |-> 0]
(* every state is a crash point: the judge accepts every prefix *)
InvEveryPrefixJudgedOK ==
    Judge(cfg, init, Total, PInit(init), init, evs, 1).why = ""
InvFinalJudgedOK == pc = "end" => Verdict(AsTrace).why = ""
(* a failed save can be retried: nothing of ours is left in the way *)
InvRetryPossible == (pc = "end" /\ raised /\ cfg.rm_part_on_exc /\ nfaults = 0) => part.st # "file"
=============================================================================
