SPECIFICATION Spec
CONSTANTS DoFlush = TRUE  DoFsync = FALSE  WriteInPlace = FALSE  MaxFaults = 2
INVARIANT InvEveryPrefixJudgedOK
INVARIANT InvFinalJudgedOK
INVARIANT InvRetryPossible
CHECK_DEADLOCK FALSE
