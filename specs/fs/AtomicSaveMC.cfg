SPECIFICATION Spec
CONSTANTS DoFlush = TRUE  DoFsync = TRUE  WriteInPlace = FALSE  MaxFaults = 2
INVARIANT InvEveryPrefixJudgedOK
INVARIANT InvFinalJudgedOK
INVARIANT InvRetryPossible
CHECK_DEADLOCK FALSE
