---------------------------- MODULE AtomicSaveTrace ----------------------------
(* One TLC state per recorded save attempt: ACCEPT or REJECT with the clause and *)
(* the index of the offending event.                                             *)
EXTENDS AtomicSave, TLC, Json, IOUtils
Traces == JsonDeserialize(IOEnv.TRACE_FILE)
VARIABLES tid, l
vars == <<tid, l>>
Init == tid \in 1..Len(Traces) /\ l = 1
Step == /\ l = 1
        /\ LET v == Verdict(Traces[tid]) IN
           IF v.why = "" THEN l' = 2 /\ tid' = tid
           ELSE /\ PrintT(<<"REJECT", ToJson([tid |-> tid, l |-> v.at, st |-> [why |-> v.why], exp |-> {[why |-> v.why]}])>>)
                /\ l' = 0 /\ tid' = tid
Spec == Init /\ [][Step]_vars
Accept == (l = 2) => PrintT(<<"ACCEPT", tid>>)
=============================================================================
