------------------------------ MODULE AtomicSave ------------------------------
(***************************************************************************)
(* fileutils.atomic_save / AtomicSaver (C04, C05).                         *)
(*                                                                         *)
(* The specification is a JUDGE over sequences of file-system events of    *)
(* one save attempt, each event carrying the view of the directory right   *)
(* after it (= what survives if the process dies there):                   *)
(*   ev = [name, target, faulted, n,                                       *)
(*         dest |-> [st \in {"absent","old","new","other"}, mode],         *)
(*         part |-> [st \in {"absent","stale","file"}, size]]              *)
(* The same judge is applied (AtomicSaveMC) to every event sequence the    *)
(* DESIGN can produce - every configuration, body, fault position - with   *)
(* a volatile/durable file model, and (AtomicSaveTrace) to the sequences   *)
(* recorded from the real code by interposing on os / file objects.        *)
(***************************************************************************)
EXTENDS Naturals, Integers, Sequences, FiniteSets

(* ---------- protocol state while consuming events ---------- *)
(* written: bytes handed to write(); synced: size covered by the last fsync of the part file;   *)
(* flushed_at_sync: whether a flush (or close) preceded that fsync with nothing written since;   *)
(* published: dest already shows the new content                                                 *)
(* base: the destination as it was before the save - or as another process created it meanwhile   *)
(* (environment event "env_dest_appears", only generated with overwrite = FALSE)                   *)
PInit(init) == [written |-> 0, dirty |-> FALSE, synced |-> 0, published |-> FALSE, base |-> init.dest,
                faults_after_publish |-> FALSE, cleanup_unlink_faulted |-> FALSE, os_error |-> FALSE]

Publishing == {"rename", "replace", "link"}

(* what must hold for one event, given the protocol state before it *)
EventWhy(cfg, init, total, ps, prev, ev) ==
  (* DestWhole: at every instant the destination is its previous self or the complete new content *)
  IF ev.name = "env_dest_appears" THEN ""
  ELSE IF ~(ev.dest.st = "new" \/ (ev.dest.st = ps.base.st /\ ev.dest.mode = ps.base.mode))
  THEN "dest-not-whole"
  (* once published it stays published *)
  ELSE IF ps.published /\ ev.dest.st # "new" THEN "dest-unpublished-again"
  (* publication: one atomic step (rename/replace/link), only after everything was written, flushed and synced *)
  ELSE IF ~ps.published /\ ev.dest.st = "new" /\
          ~(ev.name \in Publishing /\ ~ev.faulted) THEN "published-by-non-atomic-step"
  ELSE IF ~ps.published /\ ev.dest.st = "new" /\ ~(ps.written = total /\ ~ps.dirty /\ ps.synced = total /\ prev.part.size = total)
       THEN "published-before-written-flushed-synced"
  (* overwrite = FALSE: a destination that exists - at entry, or created by someone else meanwhile - is never replaced *)
  ELSE IF ~cfg.overwrite /\ ps.base.st # "absent" /\ ~ps.published /\ ev.dest.st = "new" THEN "existing-destination-replaced-despite-overwrite-false"
  (* a pre-existing part file is never reused or overwritten unless overwrite_part *)
  ELSE IF init.part.st = "stale" /\ ~cfg.overwrite_part /\ ev.part.st # "stale" THEN "stale-part-touched"
  ELSE ""

PStep(ps, prev, ev) ==
  LET ok == ~ev.faulted IN
  [ps EXCEPT
     !.written = IF ev.name = "write" /\ ok THEN @ + ev.n ELSE @,
     !.dirty = IF ev.name = "write" /\ ok THEN TRUE
               ELSE IF ev.name \in {"flush", "close"} /\ ok THEN FALSE ELSE @,
     (* an fsync covers what is in the OS at that moment: the on-disk size of the part file *)
     !.synced = IF ev.name = "fsync" /\ ok /\ ~ps.dirty THEN ev.part.size ELSE @,
     !.published = @ \/ ev.dest.st = "new",
     !.base = IF ev.name = "env_dest_appears" THEN ev.dest ELSE @,
     !.faults_after_publish = @ \/ (ev.faulted /\ ps.published),
     !.cleanup_unlink_faulted = @ \/ (ev.faulted /\ ev.name \in {"unlink", "remove"}),
     !.os_error = @ \/ ev.faulted]

(* ---------- judgement of the whole attempt ---------- *)
ExpectedMode(cfg, init) == IF cfg.perms >= 0 THEN cfg.perms      \* -1: file_perms not given; 0 is a mode like any other
                           ELSE IF init.dest.st # "absent" THEN init.dest.mode     \* the file being replaced
                           ELSE cfg.umask_default          \* 0o666 & ~umask, computed by the harness

FinalWhy(cfg, init, total, ps, last, raised, body_raised) ==
  IF ~raised THEN
     (* a with-block that exits normally leaves the complete new content and no part file *)
     IF body_raised THEN "exception-swallowed"
     (* the operating system reported an error at some step: the caller must hear about it *)
     ELSE IF ps.os_error THEN "os-error-not-reported"
     ELSE IF last.dest.st # "new" THEN "normal-exit-without-new-content"
     ELSE IF last.part.st # "absent" THEN "part-left-after-success"
     ELSE IF last.dest.mode # ExpectedMode(cfg, init) THEN "wrong-permissions"
     ELSE ""
  ELSE
     (* not completed: destination content and permissions unchanged (a fault striking after the publication *)
     (* may surface with the new content in place), and the part file this save created is gone              *)
     IF ~(last.dest.st = ps.base.st /\ last.dest.mode = ps.base.mode) /\ ~(ps.published /\ ps.faults_after_publish /\ last.dest.st = "new")
     THEN "destination-changed-by-failed-save"
     ELSE IF cfg.rm_part_on_exc /\ last.part.st = "file" /\ ~ps.cleanup_unlink_faulted /\ ~(ps.published)
     THEN "part-file-left-behind"
     ELSE IF cfg.rm_part_on_exc /\ last.part.st = "file" /\ ps.published /\ ~ps.cleanup_unlink_faulted
     THEN "part-file-left-behind"
     ELSE ""

(* an immediate retry of a failed save must succeed unless the configuration itself refuses *)
RetryMustSucceed(cfg, init, last, ps) ==
     /\ ~cfg.part_elsewhere                    \* (a part file on another file system can never be renamed into place)
     /\ ~(~cfg.overwrite /\ last.dest.st # "absent")
     /\ ~(last.part.st = "stale" /\ ~cfg.overwrite_part)
     /\ (cfg.rm_part_on_exc \/ cfg.overwrite_part)
     /\ ~ps.cleanup_unlink_faulted

RECURSIVE Judge(_, _, _, _, _, _, _)
(* returns "" or the first reason together with the event index *)
Judge(cfg, init, total, ps, prev, evs, i) ==
  IF evs = <<>> THEN [why |-> "", at |-> 0, ps |-> ps, last |-> prev]
  ELSE LET w == EventWhy(cfg, init, total, ps, prev, Head(evs)) IN
       IF w # "" THEN [why |-> w, at |-> i, ps |-> ps, last |-> prev]
       ELSE Judge(cfg, init, total, PStep(ps, prev, Head(evs)), Head(evs), Tail(evs), i + 1)

Verdict(tr) ==
  LET init == [dest |-> tr.init.dest, part |-> tr.init.part]
      j == Judge(tr.cfg, init, tr.total, PInit(init), [dest |-> tr.init.dest, part |-> tr.init.part], tr.ev, 1) IN
  IF j.why # "" THEN [why |-> j.why, at |-> j.at]
  ELSE LET f == FinalWhy(tr.cfg, init, tr.total, j.ps, j.last, tr.raised, tr.body_raised) IN
       IF f # "" THEN [why |-> f, at |-> Len(tr.ev) + 1]
       ELSE IF tr.raised /\ tr.retried /\ RetryMustSucceed(tr.cfg, init, j.last, j.ps) /\ ~tr.retry_ok
            THEN [why |-> "retry-after-failure-fails", at |-> Len(tr.ev) + 2]
       (* the retry is a save of its own: permission precedence applies to it with the destination as the failed attempt left it *)
       ELSE IF tr.raised /\ tr.retried /\ tr.retry_ok /\ tr.retry_mode # ExpectedMode(tr.cfg, [dest |-> j.last.dest])
            THEN [why |-> "retry-wrong-permissions", at |-> Len(tr.ev) + 2]
       ELSE [why |-> "", at |-> 0]
=============================================================================
