SPECIFICATION Spec
CONSTANTS DoFlush = TRUE  DoFsync = TRUE  WriteInPlace = TRUE  MaxFaults = 2
INVARIANT InvEveryPrefixJudgedOK
INVARIANT InvFinalJudgedOK
INVARIANT InvRetryPossible
CHECK_DEADLOCK FALSE
