SPECIFICATION Spec
INVARIANT Accept
CHECK_DEADLOCK FALSE
