------------------------------- MODULE RemapTrace -------------------------------
(* Validates records of real remap() runs on heaps built by the harness (also   *)
(* larger random ones): the observed result, read back as a node table through  *)
(* the identity of the rebuilt containers, must equal Rebuild(prog, heap) on     *)
(* every node still attached to the root; enter and exit fired once per node.    *)
EXTENDS Remap, TLC, Json, IOUtils
Traces == JsonDeserialize(IOEnv.TRACE_FILE)
VARIABLES tid, l
vars == <<tid, l>>
AsHeap(s) == [n \in 1..Len(s) |-> s[n]]
(* sets have no order: their members are compared as a set (the positional keys 0..n-1 carry no meaning there) *)
Members(nd) == {<<nd.items[i].s, nd.items[i].v>> : i \in 1..Len(nd.items)}
NodeEq(a, b) == IF a.kind \in {"set", "frozenset"}
                THEN a.kind = b.kind /\ Len(a.items) = Len(b.items) /\ Members(a) = Members(b)
                ELSE a = b
Why(r) ==
  LET h == AsHeap(r.heap)  R == Rebuild(r.prog, h)  live == Live(r.prog, h) IN
  IF ~WellFormed(h) THEN "harness-built-an-ill-formed-heap"
  ELSE IF r.error # "" THEN "remap-raised"
  ELSE IF {r.live[i] : i \in 1..Len(r.live)} # live THEN "different-nodes-attached-to-the-result"
  ELSE IF \E n \in live : ~NodeEq(r.result[n], R[n]) THEN "rebuilt-node-differs"
  ELSE IF \E n \in DOMAIN h : r.enters[n] # 1 \/ r.exits[n] # 1 THEN "enter-or-exit-not-once-per-node"
  ELSE IF ~r.input_unchanged THEN "input-mutated"
  ELSE ""
Init == tid \in 1..Len(Traces) /\ l = 1
Step == /\ l = 1
        /\ LET w == Why(Traces[tid]) IN
           IF w = "" THEN l' = 2 /\ tid' = tid
           ELSE /\ PrintT(<<"REJECT", ToJson([tid |-> tid, l |-> 1, st |-> [why |-> w], exp |-> {[result |-> Rebuild(Traces[tid].prog, AsHeap(Traces[tid].heap))]}])>>)
                /\ l' = 0 /\ tid' = tid
Spec == Init /\ [][Step]_vars
Accept == (l = 2) => PrintT(<<"ACCEPT", tid>>)
=============================================================================
