SPECIFICATION Spec
CONSTANTS N = 2  MaxKids = 2
INVARIANT Laws
INVARIANT Emit
CHECK_DEADLOCK FALSE
