-------------------------------- MODULE RemapMC --------------------------------
EXTENDS Remap, TLC, Json
CONSTANTS N, MaxKids
VARIABLES h, prog
vars == <<h, prog>>
RefChoices == {<<TRUE, 1>>, <<TRUE, 2>>} \cup {<<FALSE, n>> : n \in 1..N}
RECURSIVE SeqsOf(_, _)
SeqsOf(A, n) == IF n = 0 THEN {<<>>} ELSE LET s == SeqsOf(A, n - 1) IN s \cup {Append(x, u) : x \in {y \in s : Len(y) = n - 1}, u \in A}
NodeChoices == {[kind |-> kd, items |-> [i \in 1..Len(rs) |-> Item(IF kd = "dict" THEN 6 + i ELSE i - 1, rs[i][1], rs[i][2])]] :
                   kd \in KINDS, rs \in SeqsOf(RefChoices, MaxKids)}
Init == /\ h \in [1..N -> NodeChoices]
        /\ WellFormed(h)
        /\ prog \in 0..9
        /\ (prog \in {7, 8} => IsTree(h))
        /\ (prog = 8 => \A p \in DOMAIN h : 1 \notin Kids(h, p))       \* no way back to the root: the descent ends
Next == UNCHANGED vars
Spec == Init /\ [][Next]_vars
R == Rebuild(prog, h)
Laws == /\ \A n \in DOMAIN h : R[n].kind = h[n].kind                                     \* same container types
        /\ (prog \in {0, 6} => R = MarkEmpty(h))           \* default callbacks: an equal copy (the one empty tuple / frozenset by value)
        /\ \A n \in DOMAIN h : Len(R[n].items) <= Len(h[n].items)
        /\ (prog = 3 => \A n \in DOMAIN h : Len(R[n].items) = Len(h[n].items))
Emit == PrintT(<<"T", ToJson([prog |-> prog, heap |-> [n \in 1..N |-> h[n]], result |-> [n \in 1..N |-> R[n]],
                             live |-> SetToSortSeq(Live(prog, h), <)])>>)
=============================================================================
