SPECIFICATION Spec
CONSTANTS N = 3  MaxKids = 2
INVARIANT Laws
INVARIANT Emit
CHECK_DEADLOCK FALSE
