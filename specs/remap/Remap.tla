--------------------------------- MODULE Remap ---------------------------------
(***************************************************************************)
(* iterutils.remap as a bottom-up recursive rebuild (C08).                 *)
(*                                                                         *)
(* Heap: nodes 1..N, node 1 the root.  A node is [kind, items]; an item is *)
(* [k, s, v]: key k (dict key, or position for the other kinds), and       *)
(* either a scalar v (s = TRUE) or a reference to node v (s = FALSE).      *)
(* Sharing = two references to one node; cycles = a node reaching itself.  *)
(* Rebuild(h, prog): every node is rebuilt ONCE into a container of the    *)
(* same kind holding, in order, the items its visit callback keeps or      *)
(* rewrites, references pointing to the rebuilt nodes (so sharing and      *)
(* cycles are preserved).  Visit programs are the constants below.         *)
(***************************************************************************)
EXTENDS Naturals, Integers, Sequences, FiniteSets, SequencesExt

KINDS == {"dict", "list", "tuple", "set", "frozenset"}
Item(k, s, v) == [k |-> k, s |-> s, v |-> v]
Kids(h, n) == {h[n].items[i].v : i \in {j \in 1..Len(h[n].items) : ~h[n].items[j].s}}
RECURSIVE ReachFrom(_, _, _)
ReachFrom(h, frontier, seen) == IF frontier = {} THEN seen
    ELSE LET nxt == UNION {Kids(h, n) : n \in frontier} \ seen IN ReachFrom(h, nxt, seen \cup nxt)
Reach(h, n) == ReachFrom(h, {n}, {n})              \* n and everything below it
Below(h, n) == ReachFrom(h, Kids(h, n), Kids(h, n)) \* strictly below (n itself only through a cycle)
OnCycle(h, n) == n \in Below(h, n)

(* what Python can build and hash *)
WellFormed(h) ==
    /\ Reach(h, 1) = DOMAIN h
    /\ \A n \in DOMAIN h :
         /\ h[n].kind \in {"set", "frozenset"} =>
               /\ \A i \in 1..Len(h[n].items) : h[n].items[i].s
               /\ \A i, j \in 1..Len(h[n].items) : h[n].items[i].v = h[n].items[j].v => i = j
         /\ h[n].kind = "dict" => \A i, j \in 1..Len(h[n].items) : h[n].items[i].k = h[n].items[j].k => i = j
         (* the interpreter keeps ONE empty tuple and one empty frozenset: at most one node of a heap can be it *)
         /\ h[n].kind \in {"tuple", "frozenset"} /\ h[n].items = <<>> =>
               \A m \in DOMAIN h : h[m].kind = h[n].kind /\ h[m].items = <<>> => m = n
         (* a cycle can only be closed through containers that exist before their items do *)
         /\ OnCycle(h, n) => h[n].kind \in {"dict", "list"}
IsTree(h) == \A n \in DOMAIN h : Cardinality({<<p, i>> \in (DOMAIN h) \X (1..4) : i <= Len(h[p].items) /\ ~h[p].items[i].s /\ h[p].items[i].v = n}) <= 1
RECURSIVE DepthOf(_, _, _)
DepthOf(h, n, fuel) == IF n = 1 \/ fuel = 0 THEN 0
    ELSE 1 + DepthOf(h, CHOOSE p \in DOMAIN h : n \in Kids(h, p), fuel - 1)

(* nothing is left of node n once every leaf 1 and every container emptied that way is gone (trees: fuel never runs out) *)
RECURSIVE Emptied(_, _, _)
Emptied(h, n, fuel) == fuel > 0 /\ \A i \in 1..Len(h[n].items) :
                          LET it == h[n].items[i] IN IF it.s THEN it.v = 1 ELSE Emptied(h, it.v, fuel - 1)
(* ---- visit programs: result [keep, k, s, v] ---- *)
Keep(it) == [keep |-> TRUE, k |-> it.k, s |-> it.s, v |-> it.v]
Drop(it) == [keep |-> FALSE, k |-> it.k, s |-> it.s, v |-> it.v]
Visit(prog, h, n, it) ==
  CASE prog = 0 -> Keep(it)                                                     \* default_visit
    [] prog = 1 -> IF it.s /\ it.v = 1 THEN Drop(it) ELSE Keep(it)              \* drop a leaf value
    [] prog = 2 -> IF h[n].kind \in {"dict", "list", "tuple"} /\ it.k = (IF h[n].kind = "dict" THEN 7 ELSE 0) THEN Drop(it) ELSE Keep(it)  \* drop a key
    [] prog = 3 -> IF it.s THEN [keep |-> TRUE, k |-> it.k, s |-> TRUE, v |-> it.v + 10] ELSE Keep(it)      \* rewrite leaves
    [] prog = 4 -> IF h[n].kind = "dict" THEN [keep |-> TRUE, k |-> it.k + 100, s |-> it.s, v |-> it.v] ELSE Keep(it)  \* rename keys
    [] prog = 5 -> IF ~it.s /\ h[it.v].kind = "list" THEN Drop(it) ELSE Keep(it)   \* drop containers of one kind
    [] prog = 6 -> Keep(it)                                                     \* visit returns True
    [] prog = 7 -> IF DepthOf(h, n, 8) = 1 THEN Drop(it) ELSE Keep(it)          \* path dependent: drop what hangs two levels down
    (* looks INSIDE the rebuilt child (trees only): leaf 1 goes, then every container that ended up empty goes with it *)
    [] prog = 8 -> IF it.s THEN (IF it.v = 1 THEN Drop(it) ELSE Keep(it)) ELSE IF Emptied(h, it.v, 8) THEN Drop(it) ELSE Keep(it)
    (* all three kinds of answer in one callback: False for leaf 1, a rewritten pair for leaf 2, True otherwise *)
    [] prog = 9 -> IF it.s /\ it.v = 1 THEN Drop(it) ELSE IF it.s /\ it.v = 2 THEN [keep |-> TRUE, k |-> it.k, s |-> TRUE, v |-> 12] ELSE Keep(it)
    [] OTHER -> Keep(it)

(* the rebuilt node: same kind, visited items in order; positions are renumbered for the positional kinds *)
NewItems(prog, h, n) ==
    LET vis == [i \in 1..Len(h[n].items) |-> Visit(prog, h, n, h[n].items[i])]
        kept == SelectSeq(vis, LAMBDA x : x.keep)
    IN [i \in 1..Len(kept) |-> Item(IF h[n].kind = "dict" THEN kept[i].k ELSE i - 1, kept[i].s, kept[i].v)]
Rebuild0(prog, h) == [n \in DOMAIN h |-> [kind |-> h[n].kind, items |-> NewItems(prog, h, n)]]
(* a rebuilt tuple / frozenset that ended up empty is the interpreter's shared empty object: references to it are *)
(* written as the scalar markers -1 / -2 (compared by value, not by identity)                                     *)
EmptyImm(R, n) == R[n].items = <<>> /\ R[n].kind \in {"tuple", "frozenset"}
MarkEmpty(R) ==
    [n \in DOMAIN R |-> [kind |-> R[n].kind,
                         items |-> [i \in 1..Len(R[n].items) |->
                                      LET it == R[n].items[i] IN
                                      IF ~it.s /\ EmptyImm(R, it.v) THEN Item(it.k, TRUE, IF R[it.v].kind = "tuple" THEN -1 ELSE -2) ELSE it]]]
Rebuild(prog, h) == MarkEmpty(Rebuild0(prog, h))
(* nodes of the result that are still attached to the new root *)
Live(prog, h) == Reach(Rebuild(prog, h), 1)
=============================================================================
