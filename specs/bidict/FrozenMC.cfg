SPECIFICATION Spec
CONSTANTS K = 2
VIEW Vw
INVARIANT InvTotal
PROPERTY ActImmutable
CHECK_DEADLOCK FALSE
