------------------------------- MODULE Bidict -------------------------------
(***************************************************************************)
(* Reference semantics of dictutils.OneToOne (C17, first part).            *)
(* State: an injective partial function, kept as the sorted sequence of    *)
(* its <<key, value>> pairs.  The inverse is DERIVED - that is the         *)
(* invariant the implementation must maintain with two dicts.              *)
(* Every op carries side \in {"fwd", "inv"}: an operation on o.inv is the  *)
(* same operation on the transposed relation.                              *)
(* Atoms: integers >= 1; 0 = None; -1 = argument not given; 99 = an        *)
(* unhashable value (a list) - must be refused with TypeError, no change.  *)
(***************************************************************************)
EXTENDS Naturals, Integers, Sequences, FiniteSets, SequencesExt

PLess(a, b) == a[1] < b[1] \/ (a[1] = b[1] /\ a[2] < b[2])
Norm(S) == SetToSortSeq(S, PLess)
Rel(ps) == {ps[i] : i \in 1..Len(ps)}
Swap(S) == {<<p[2], p[1]>> : p \in S}
Dom(S) == {p[1] : p \in S}
Ran(S) == {p[2] : p \in S}
Img(S, k) == CHOOSE v \in Ran(S) : <<k, v>> \in S
Injective(S) == \A p, q \in S : (p[1] = q[1] <=> p[2] = q[2])
UNHASHABLE == 99

(* assignment: the key's old pair and the value's old pair both go *)
Set(S, k, v) == {p \in S : p[1] # k /\ p[2] # v} \cup {<<k, v>>}
RECURSIVE SetAll(_, _)
SetAll(S, arg) == IF arg = <<>> THEN S ELSE SetAll(Set(S, Head(arg)[1], Head(arg)[2]), Tail(arg))

Ok(v)  == [e |-> "ok", v |-> v]
Err(n) == [e |-> n, v |-> <<>>]
Out(S, r) == [s |-> Norm(S), r |-> r]
Op(name, side, k, v, d, arg) == [op |-> name, side |-> side, k |-> k, v |-> v, d |-> d, arg |-> arg]
Dflt(d) == IF d = -1 THEN 0 ELSE d

(* last value per key, as a dict would collapse an iterable of pairs *)
RECURSIVE AsDict(_, _)
AsDict(S, arg) == IF arg = <<>> THEN S
                  ELSE AsDict({p \in S : p[1] # Head(arg)[1]} \cup {<<Head(arg)[1], Head(arg)[2]>>}, Tail(arg))

(* outcomes on the forward side; S is the relation as seen from that side *)
Fwd(S, o) ==
  LET k == o.k IN
  CASE o.op = "setitem" ->
         IF o.v = UNHASHABLE THEN {[S |-> S, r |-> Err("TypeError")]}
         ELSE {[S |-> Set(S, k, o.v), r |-> Ok(<<>>)]}
    [] o.op = "delitem" ->
         IF k \in Dom(S) THEN {[S |-> {p \in S : p[1] # k}, r |-> Ok(<<>>)]}
         ELSE {[S |-> S, r |-> Err("KeyError")]}
    [] o.op \in {"update", "ior"} ->
         IF \E i \in 1..Len(o.arg) : o.arg[i][2] = UNHASHABLE
         THEN {[S |-> S, r |-> Err("TypeError")]}
         ELSE {[S |-> SetAll(S, o.arg), r |-> Ok(<<>>)]}
    (* the iterable of pairs raises after its last pair: whatever prefix the method had applied by then is applied *)
    (* completely (both directions) - the state is that of an update with some prefix                            *)
    [] o.op = "update_failing" ->
         IF \E i \in 1..Len(o.arg) : o.arg[i][2] = UNHASHABLE
         THEN {[S |-> S, r |-> Err("TypeError")], [S |-> S, r |-> Err("RuntimeError")]}
         ELSE {[S |-> SetAll(S, SubSeq(o.arg, 1, i)), r |-> Err("RuntimeError")] : i \in 0..Len(o.arg)}
    [] o.op = "setdefault" ->
         IF k \in Dom(S) THEN {[S |-> S, r |-> Ok(<<Img(S, k)>>)]}
         ELSE {[S |-> Set(S, k, Dflt(o.d)), r |-> Ok(<<Dflt(o.d)>>)]}
    [] o.op = "pop" ->
         IF k \in Dom(S) THEN {[S |-> {p \in S : p[1] # k}, r |-> Ok(<<Img(S, k)>>)]}
         ELSE IF o.d = -1 THEN {[S |-> S, r |-> Err("KeyError")]}
         ELSE {[S |-> S, r |-> Ok(<<o.d>>)]}
    [] o.op = "popitem" ->
         IF S = {} THEN {[S |-> S, r |-> Err("KeyError")]}
         ELSE {[S |-> S \ {p}, r |-> Ok(<<p[1], p[2]>>)] : p \in S}
    [] o.op = "clear" -> {[S |-> {}, r |-> Ok(<<>>)]}
    [] o.op = "copy"  -> {[S |-> S, r |-> Ok(<<>>)]}
    [] o.op = "getitem" ->
         IF k \in Dom(S) THEN {[S |-> S, r |-> Ok(<<Img(S, k)>>)]} ELSE {[S |-> S, r |-> Err("KeyError")]}
    (* construction: the property only demands a one-to-one result. Admitted: any   *)
    (* injective selection from the argument-as-dict that keeps every value once.   *)
    [] o.op = "ctor" ->
         LET D == AsDict({}, o.arg) IN
         {[S |-> R, r |-> Ok(<<>>)] : R \in {R \in SUBSET D : Injective(R) /\ Ran(R) = Ran(D)}}
    [] o.op = "unique" ->
         LET D == AsDict({}, o.arg) IN
         IF Injective(D) THEN {[S |-> D, r |-> Ok(<<>>)]} ELSE {[S |-> S, r |-> Err("ValueError")]}
    [] OTHER -> {}

Outcomes(st, o) ==
    IF o.side = "fwd" THEN {Out(x.S, x.r) : x \in Fwd(Rel(st), o)}
    ELSE {Out(Swap(x.S), x.r) : x \in Fwd(Swap(Rel(st)), o)}

(* reads: both sides as sorted pair lists, the lengths, and the identity inv.inv is o *)
Obs(st) == [fwd |-> st, inv |-> Norm(Swap(Rel(st))), len |-> Len(st), len_inv |-> Len(st),
            inv_inv_is_self |-> TRUE, lookups_agree |-> TRUE]

MutualInverse(st) == Injective(Rel(st)) /\ Len(st) = Cardinality(Rel(st))
=============================================================================
