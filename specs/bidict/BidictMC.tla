------------------------------ MODULE BidictMC ------------------------------
EXTENDS Bidict, TLC, Json
CONSTANTS K
Atoms == 1..K
Sides == {"fwd", "inv"}
RECURSIVE PSeqs(_)
PSeqs(n) == IF n = 0 THEN {<<>>}
            ELSE LET s == PSeqs(n - 1) IN s \cup {Append(x, <<a, b>>) : x \in {y \in s : Len(y) = n - 1}, a \in Atoms, b \in Atoms}
Args == PSeqs(2) \cup {<< <<1, UNHASHABLE>> >>, << <<1, 2>>, <<2, UNHASHABLE>> >>}

Ops == {Op("setitem", s, k, v, 0, <<>>) : s \in Sides, k \in Atoms, v \in Atoms \cup {UNHASHABLE}}
  \cup {Op(n, s, k, 0, 0, <<>>) : n \in {"delitem", "getitem"}, s \in Sides, k \in Atoms}
  \cup {Op(n, s, 0, 0, 0, a) : n \in {"update", "ior"}, s \in Sides, a \in Args}
  \cup {Op("update_failing", s, 0, 0, 0, a) : s \in Sides, a \in PSeqs(2)}
  \cup {Op(n, "fwd", 0, 0, 0, a) : n \in {"ctor", "unique"}, a \in PSeqs(2)}
  \cup {Op("setdefault", s, k, 0, d, <<>>) : s \in Sides, k \in Atoms, d \in {-1} \cup Atoms}
  \cup {Op("pop", s, k, 0, d, <<>>) : s \in Sides, k \in Atoms, d \in {-1, 0}}
  \cup {Op(n, s, 0, 0, 0, <<>>) : n \in {"popitem", "clear", "copy"}, s \in Sides}

VARIABLES st, last
vars == <<st, last>>
Init == st = <<>> /\ last = [op |-> Op("init", "fwd", 0, 0, 0, <<>>), o |-> [s |-> <<>>, r |-> Ok(<<>>)]]
Next == \E o \in Ops : \E out \in Outcomes(st, o) : st' = out.s /\ last' = [op |-> o, o |-> out]
Spec == Init /\ [][Next]_vars
Vw == st
InvMutualInverse == MutualInverse(st)
InvNoNoneFromNowhere == TRUE
InvTotal == \A o \in Ops : Outcomes(st, o) # {}
(* an operation on o.inv is the same operation on the transposed relation *)
InvSidesSymmetric == \A o \in Ops : o.op \notin {"ctor", "unique"} =>
      LET flip == [o EXCEPT !.side = IF o.side = "fwd" THEN "inv" ELSE "fwd"] IN
      {x.s : x \in Outcomes(st, o)} = {Norm(Swap(Rel(y.s))) : y \in Outcomes(Norm(Swap(Rel(st))), flip)}
ActRefusedUnchanged == [][last'.o.r.e = "TypeError" => st' = st]_vars
EmitI == (last.op.op = "init") => PrintT(<<"I", ToJson(st)>>)
EmitS == PrintT(<<"S", ToJson([s |-> st, obs |-> Obs(st)])>>)
EmitE == PrintT(<<"E", ToJson([f |-> st, op |-> last'.op, o |-> last'.o, t |-> st'])>>)
=============================================================================
