SPECIFICATION Spec
CONSTANTS K = 3  MaxPairs = 9
VIEW Vw
INVARIANT InvTransposed
INVARIANT InvTotal
CHECK_DEADLOCK FALSE
