SPECIFICATION Spec
CONSTANTS K = 3
VIEW Vw
INVARIANT InvMutualInverse
PROPERTY ActTotal
PROPERTY ActSidesSymmetric
PROPERTY ActRefusedUnchanged
CHECK_DEADLOCK FALSE
