SPECIFICATION Spec
CONSTANTS K = 3
VIEW Vw
INVARIANT InvMutualInverse
INVARIANT InvTotal
INVARIANT InvSidesSymmetric
PROPERTY ActRefusedUnchanged
CHECK_DEADLOCK FALSE
