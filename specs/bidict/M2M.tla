--------------------------------- MODULE M2M ---------------------------------
(***************************************************************************)
(* Reference semantics of dictutils.ManyToMany (C17, second part).         *)
(* State: a relation, kept as the sorted sequence of its <<key, value>>    *)
(* pairs; the inverse side is the transposed relation; a key "exists"      *)
(* exactly when it has at least one pair (no empty entries).               *)
(***************************************************************************)
EXTENDS Naturals, Integers, Sequences, FiniteSets, SequencesExt

PLess(a, b) == a[1] < b[1] \/ (a[1] = b[1] /\ a[2] < b[2])
Norm(S) == SetToSortSeq(S, PLess)
Rel(ps) == {ps[i] : i \in 1..Len(ps)}
Swap(S) == {<<p[2], p[1]>> : p \in S}
Dom(S) == {p[1] : p \in S}
ImgSet(S, k) == {p[2] : p \in {q \in S : q[1] = k}}
SeqSet(s) == {s[i] : i \in 1..Len(s)}

Ok(v)  == [e |-> "ok", v |-> v]
Err(n) == [e |-> n, v |-> <<>>]
Op(name, side, k, v, arg) == [op |-> name, side |-> side, k |-> k, v |-> v, arg |-> arg]

Fwd(S, o) ==
  LET k == o.k IN
  CASE o.op = "add"    -> {[S |-> S \cup {<<k, o.v>>}, r |-> Ok(<<>>)]}
    [] o.op = "remove" -> IF <<k, o.v>> \in S THEN {[S |-> S \ {<<k, o.v>>}, r |-> Ok(<<>>)]}
                          ELSE {[S |-> S, r |-> Err("KeyError")]}
    (* m[k] = vals : k is related to exactly vals afterwards (o.arg: sequence of values) *)
    [] o.op = "setitem" -> {[S |-> {p \in S : p[1] # k} \cup {<<k, o.arg[i]>> : i \in 1..Len(o.arg)}, r |-> Ok(<<>>)]}
    [] o.op = "delitem" -> IF k \in Dom(S) THEN {[S |-> {p \in S : p[1] # k}, r |-> Ok(<<>>)]}
                           ELSE {[S |-> S, r |-> Err("KeyError")]}
    (* replace(k, v): every pair of key k becomes a pair of key v (merging when v exists) *)
    [] o.op = "replace" -> {[S |-> {<<IF p[1] = k THEN o.v ELSE p[1], p[2]>> : p \in S}, r |-> Ok(<<>>)]}
    (* update with pairs / a mapping key->value / another ManyToMany: union *)
    [] o.op \in {"update", "ctor_then_update"} -> {[S |-> S \cup SeqSet(o.arg), r |-> Ok(<<>>)]}
    [] o.op = "ctor" -> {[S |-> SeqSet(o.arg), r |-> Ok(<<>>)]}
    [] o.op = "getitem" -> IF k \in Dom(S) THEN {[S |-> S, r |-> Ok(SetToSortSeq(ImgSet(S, k), <))]}
                           ELSE {[S |-> S, r |-> Err("KeyError")]}
    [] OTHER -> {}

Outcomes(st, o) ==
    IF o.side = "fwd" THEN {[s |-> Norm(x.S), r |-> x.r] : x \in Fwd(Rel(st), o)}
    ELSE {[s |-> Norm(Swap(x.S)), r |-> x.r] : x \in Fwd(Swap(Rel(st)), o)}

KeysSorted(S) == SetToSortSeq(Dom(S), <)
Side(S, U) == [pairs |-> Norm(S), keys |-> KeysSorted(S), len |-> Cardinality(Dom(S)),
               get |-> [a \in 1..U |-> SetToSortSeq(ImgSet(S, a), <)],
               contains |-> [a \in 1..U |-> a \in Dom(S)],
               no_empty_entries |-> TRUE]
Obs(st, U) == [fwd |-> Side(Rel(st), U), inv |-> Side(Swap(Rel(st)), U), inv_inv_is_self |-> TRUE,
               eq_same |-> TRUE, eq_other |-> FALSE]
=============================================================================
