----------------------------- MODULE M2MTrace -----------------------------
EXTENDS M2M, TLC, Json, IOUtils
Traces == JsonDeserialize(IOEnv.TRACE_FILE)
VARIABLES tid, l, st
vars == <<tid, l, st>>
Match(o, ev) == o.r = ev.r /\ Obs(o.s, Traces[tid].U) = ev.obs /\ \A i \in 1..Len(ev.also_t) : ev.also_t[i] = Obs(o.s, Traces[tid].U)
Init == tid \in 1..Len(Traces) /\ l = 1 /\ st = <<>>
Step == /\ l >= 1 /\ l <= Len(Traces[tid].ev)
        /\ LET ev == Traces[tid].ev[l]
               cand == Outcomes(st, ev.op)
               ms == {o \in cand : Match(o, ev)} IN
           IF ms # {} THEN \E o \in ms : st' = o.s /\ l' = l + 1 /\ tid' = tid
           ELSE /\ PrintT(<<"REJECT", ToJson([tid |-> tid, l |-> l, st |-> st, exp |-> {[r |-> o.r, obs |-> Obs(o.s, Traces[tid].U)] : o \in cand}])>>)
                /\ l' = 0 /\ UNCHANGED <<tid, st>>
Spec == Init /\ [][Step]_vars
Accept == (l = Len(Traces[tid].ev) + 1) => PrintT(<<"ACCEPT", tid>>)
=============================================================================
