-------------------------------- MODULE M2MMC --------------------------------
EXTENDS M2M, TLC, Json
CONSTANTS K, MaxPairs
Atoms == 1..K
Sides == {"fwd", "inv"}
RECURSIVE PSeqs(_)
PSeqs(n) == IF n = 0 THEN {<<>>}
            ELSE LET s == PSeqs(n - 1) IN s \cup {Append(x, <<a, b>>) : x \in {y \in s : Len(y) = n - 1}, a \in Atoms, b \in Atoms}
ValSeqs == {<<>>, <<1>>, <<2>>, <<1, 2>>, <<2, 3>>, <<3, 1, 3>>}
Ops == {Op(n, s, k, v, <<>>) : n \in {"add", "remove", "replace"}, s \in Sides, k \in Atoms, v \in Atoms}
  \cup {Op("setitem", s, k, 0, vs) : s \in Sides, k \in Atoms, vs \in ValSeqs}
  \cup {Op(n, s, k, 0, <<>>) : n \in {"delitem", "getitem"}, s \in Sides, k \in Atoms}
  \cup {Op("update", s, 0, 0, a) : s \in Sides, a \in PSeqs(2)}
  \cup {Op("ctor", "fwd", 0, 0, a) : a \in PSeqs(2)}
VARIABLES st, last
vars == <<st, last>>
Init == st = <<>> /\ last = [op |-> Op("init", "fwd", 0, 0, <<>>), o |-> [s |-> <<>>, r |-> Ok(<<>>)]]
Next == \E o \in Ops : \E out \in Outcomes(st, o) :
           Len(out.s) <= MaxPairs /\ st' = out.s /\ last' = [op |-> o, o |-> out]
Spec == Init /\ [][Next]_vars
Vw == st
InvTransposed == LET o == Obs(st, K) IN
    /\ o.inv.pairs = Norm(Swap(Rel(o.fwd.pairs)))
    /\ \A a \in 1..K : (o.fwd.contains[a] <=> o.fwd.get[a] # <<>>) /\ (o.inv.contains[a] <=> o.inv.get[a] # <<>>)
    /\ o.fwd.len = Len(o.fwd.keys) /\ o.inv.len = Len(o.inv.keys)
InvTotal == \A o \in Ops : Outcomes(st, o) # {}
EmitI == (last.op.op = "init") => PrintT(<<"I", ToJson(st)>>)
EmitS == PrintT(<<"S", ToJson([s |-> st, obs |-> Obs(st, K)])>>)
EmitE == PrintT(<<"E", ToJson([f |-> st, op |-> last'.op, o |-> last'.o, t |-> st'])>>)
=============================================================================
