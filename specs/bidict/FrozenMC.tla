------------------------------- MODULE FrozenMC -------------------------------
EXTENDS Frozen, TLC, Json
CONSTANTS K
Atoms == 1..K
RECURSIVE PSeqs(_)
PSeqs(n) == IF n = 0 THEN {<<>>}
            ELSE LET s == PSeqs(n - 1) IN s \cup {Append(x, <<a, b>>) : x \in {y \in s : Len(y) = n - 1}, a \in Atoms, b \in Atoms \cup {UNHASHABLE}}
Ops == {Op(n, k, v, <<>>) : n \in {"setitem", "setdefault", "pop"}, k \in Atoms, v \in {1}}
  \cup {Op("delitem", k, 0, <<>>) : k \in Atoms}
  \cup {Op(n, 0, 0, a) : n \in {"update", "ior", "updated"}, a \in PSeqs(1)}
  \cup {Op(n, 0, 0, <<>>) : n \in {"popitem", "clear", "hash", "copy", "ctor_from_self"}}
  \cup {Op("fromkeys", 0, v, a) : v \in {0, 1}, a \in PSeqs(2)}
VARIABLES st, last
vars == <<st, last>>
Init == st \in {Norm(AsDict({}, a)) : a \in PSeqs(2)} /\ last = [op |-> Op("init", 0, 0, <<>>), o |-> [s |-> st, r |-> Ok(<<>>)]]
Next == \E o \in Ops : \E out \in Outcomes(st, o) : st' = out.s /\ last' = [op |-> o, o |-> out]
Spec == Init /\ [][Next]_vars
Vw == st
ActImmutable == [][last'.op.op \in Mutators => (st' = st /\ last'.o.r.e = "TypeError")]_vars
InvTotal == \A o \in Ops : Outcomes(st, o) # {}
EmitI == (last.op.op = "init") => PrintT(<<"I", ToJson(st)>>)
EmitS == PrintT(<<"S", ToJson([s |-> st, obs |-> Obs(st, K)])>>)
EmitE == PrintT(<<"E", ToJson([f |-> st, op |-> last'.op, o |-> last'.o, t |-> st'])>>)
=============================================================================
