-------------------------------- MODULE Frozen --------------------------------
(***************************************************************************)
(* Reference semantics of dictutils.FrozenDict (C17, third part).          *)
(* State: the content, as the sorted sequence of <<key, value>> pairs of a *)
(* function. 99 = an unhashable value (a list).                            *)
(***************************************************************************)
EXTENDS Naturals, Integers, Sequences, FiniteSets, SequencesExt

PLess(a, b) == a[1] < b[1]
Norm(S) == SetToSortSeq(S, PLess)
Rel(ps) == {ps[i] : i \in 1..Len(ps)}
Dom(S) == {p[1] : p \in S}
UNHASHABLE == 99
RECURSIVE AsDict(_, _)
AsDict(S, arg) == IF arg = <<>> THEN S
                  ELSE AsDict({p \in S : p[1] # Head(arg)[1]} \cup {<<Head(arg)[1], Head(arg)[2]>>}, Tail(arg))
Hashable(ps) == \A i \in 1..Len(ps) : ps[i][2] # UNHASHABLE

Ok(v)  == [e |-> "ok", v |-> v]
Err(n) == [e |-> n, v |-> <<>>]
Op(name, k, v, arg) == [op |-> name, k |-> k, v |-> v, arg |-> arg]
Mutators == {"setitem", "delitem", "update", "ior", "setdefault", "pop", "popitem", "clear"}

Outcomes(st, o) ==
  CASE o.op \in Mutators -> {[s |-> st, r |-> Err("TypeError")]}
    (* hash(): equal for equal content (the harness compares with a twin built in another *)
    (* insertion order and calls it twice); FrozenHashError whenever a value is unhashable *)
    [] o.op = "hash" -> IF Hashable(st) THEN {[s |-> st, r |-> Ok(<<1>>)]} ELSE {[s |-> st, r |-> Err("FrozenHashError")]}
    (* updated(arg): a new FrozenDict; the harness switches to it and re-reads the source *)
    [] o.op = "updated" -> {[s |-> Norm(AsDict(Rel(st), o.arg)), r |-> Ok(<<>>)]}
    [] o.op \in {"copy", "ctor_from_self"} -> {[s |-> st, r |-> Ok(<<>>)]}
    [] o.op = "fromkeys" -> {[s |-> Norm({<<o.arg[i][1], o.v>> : i \in 1..Len(o.arg)}), r |-> Ok(<<>>)]}
    [] OTHER -> {}

Obs(st, U) == [items |-> st, len |-> Len(st),
               get |-> [a \in 1..U |-> IF a \in Dom(Rel(st)) THEN <<(CHOOSE p \in Rel(st) : p[1] = a)[2]>> ELSE <<>>],
               eq_same_dict |-> TRUE, is_dict |-> TRUE,
               (* asked of every object after every step (so derived objects come from sources whose hash - or hash *)
               (* error - has already been worked out once): hashable exactly when no value is unhashable            *)
               hashable |-> Hashable(st)]
=============================================================================
