INIT Init
NEXT Next
CONSTANTS K = 2
VIEW Vw
INVARIANT EmitI
INVARIANT EmitS
ACTION_CONSTRAINT EmitE
CHECK_DEADLOCK FALSE
