-------------------------------- MODULE PyCallMC --------------------------------
EXTENDS PyCall, TLC, Json
CONSTANTS MaxKwo, MaxKwSubset
VARIABLES sig, call, mode, arg
vars == <<sig, call, mode, arg>>
Names == <<1, 2, 3>>
Sigs == {[pos |-> SubSeq(Names, 1, n), ndef |-> d, star |-> s, kwo |-> k, dstar |-> w] :
            n \in 0..3, d \in 0..3, s \in BOOLEAN, w \in BOOLEAN,
            k \in {<<>>, <<[n |-> 4, d |-> FALSE]>>, <<[n |-> 4, d |-> TRUE]>>} \cup
                  (IF MaxKwo >= 2 THEN {<<[n |-> 4, d |-> a], [n |-> 5, d |-> b]>> : a \in BOOLEAN, b \in BOOLEAN} ELSE {})}
KwSets == {S \in SUBSET {1, 2, 3, 4, 5, 6} : Cardinality(S) <= MaxKwSubset}
Calls == {[npos |-> p, kws |-> S] : p \in 0..4, S \in KwSets}
Init == /\ sig \in {x \in Sigs : x.ndef <= Len(x.pos)}
        /\ \/ mode = "plain" /\ arg = 0 /\ call \in Calls
           \/ mode \in {"expect", "expect_default"} /\ arg = 7 /\ call \in {c \in Calls : c.npos = 0 /\ c.kws = {}}
           \/ mode = "inject" /\ arg \in SeqSet(sig.pos) \cup KwoNames(sig) /\ call \in {c \in Calls : c.npos <= 3 /\ Cardinality(c.kws) <= 1 /\ arg \notin c.kws}
Next == UNCHANGED vars
Spec == Init /\ [][Next]_vars
WSig == IF mode = "inject" THEN Inject(sig, arg) ELSE sig
(* what the ORIGINAL function must see: the call bound against the wrapper's signature, plus the injected argument supplied by the wrapper *)
Seen == LET b == Bind(WSig, call) IN
        IF ~b.ok \/ mode = "plain" THEN b
        ELSE [b EXCEPT !.args = SortSeq(b.args \o << <<arg, 70 + arg>> >>, LAMBDA x, y : x[1] < y[1])]
SortedArgs(b) == IF b.ok THEN [b EXCEPT !.args = SortSeq(b.args, LAMBDA x, y : x[1] < y[1])] ELSE b
(* laws on the reference itself *)
Laws == /\ (mode \in {"expect", "expect_default"} => ExpectOK(sig, Params(Expect(sig, 7, mode = "expect_default")), 7, mode = "expect_default"))
        /\ (mode = "inject" => /\ Len(Params(WSig)) = Len(Params(sig)) - 1
                               /\ \A i \in 1..Len(Params(WSig)) : \E j \in 1..Len(Params(sig)) : Params(WSig)[i] = Params(sig)[j])
        /\ (Bind(WSig, call).ok => Cardinality({Bind(WSig, call).args[i][1] : i \in 1..Len(Bind(WSig, call).args)}) = Len(Bind(WSig, call).args))
Emit == PrintT(<<"T", ToJson([mode |-> mode, arg |-> arg, sig |-> sig, wparams |-> Params(WSig),
                             npos |-> call.npos, kws |-> SetToSortSeq(call.kws, <), seen |-> SortedArgs(Seen)])>>)
=============================================================================
