SPECIFICATION Spec
CONSTANTS MaxKwo = 1  MaxKwSubset = 2
INVARIANT Laws
INVARIANT Emit
CHECK_DEADLOCK FALSE
