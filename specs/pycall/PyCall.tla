--------------------------------- MODULE PyCall ---------------------------------
(***************************************************************************)
(* Python's argument binding, as far as funcutils.wraps must preserve it   *)
(* (C13).  A signature:                                                    *)
(*   [pos : Seq(name), ndef : number of trailing positional defaults,      *)
(*    star : *args present, kwo : Seq([n : name, d : has default]),        *)
(*    dstar : **kwargs present]                                            *)
(* A call: [npos : number of positional arguments, kws : set of keyword    *)
(* names].  Names are small integers.  Bind returns "TypeError" or the     *)
(* bound arguments with their value sources: positional i has value i,     *)
(* keyword n has value 50+n, the default of n has value 90+n.              *)
(***************************************************************************)
EXTENDS Naturals, Integers, Sequences, FiniteSets, SequencesExt

SeqSet(s) == {s[i] : i \in 1..Len(s)}
KwoNames(sig) == {sig.kwo[i].n : i \in 1..Len(sig.kwo)}
PosIdx(sig, n) == CHOOSE i \in 1..Len(sig.pos) : sig.pos[i] = n
HasPosDefault(sig, i) == i > Len(sig.pos) - sig.ndef
KwoDefault(sig, n) == (CHOOSE i \in 1..Len(sig.kwo) : sig.kwo[i].n = n) \in {i \in 1..Len(sig.kwo) : sig.kwo[i].d}

Bind(sig, call) ==
  LET np == Len(sig.pos)
      tooMany == call.npos > np /\ ~sig.star
      multiple == \E n \in call.kws : n \in SeqSet(sig.pos) /\ PosIdx(sig, n) <= call.npos
      unexpected == \E n \in call.kws : n \notin SeqSet(sig.pos) /\ n \notin KwoNames(sig) /\ ~sig.dstar
      missingPos == \E i \in 1..np : i > call.npos /\ sig.pos[i] \notin call.kws /\ ~HasPosDefault(sig, i)
      missingKwo == \E i \in 1..Len(sig.kwo) : sig.kwo[i].n \notin call.kws /\ ~sig.kwo[i].d
  IN IF tooMany \/ multiple \/ unexpected \/ missingPos \/ missingKwo THEN [ok |-> FALSE, args |-> <<>>, star |-> <<>>, kw |-> <<>>]
     ELSE [ok |-> TRUE,
           args |-> [i \in 1..np |-> <<sig.pos[i], IF i <= call.npos THEN i ELSE IF sig.pos[i] \in call.kws THEN 50 + sig.pos[i] ELSE 90 + sig.pos[i]>>]
                    \o [i \in 1..Len(sig.kwo) |-> <<sig.kwo[i].n, IF sig.kwo[i].n \in call.kws THEN 50 + sig.kwo[i].n ELSE 90 + sig.kwo[i].n>>],
           star |-> [i \in 1..(IF call.npos > np THEN call.npos - np ELSE 0) |-> np + i],
           kw |-> SetToSortSeq({n \in call.kws : n \notin SeqSet(sig.pos) /\ n \notin KwoNames(sig)}, <)]

(* the parameter list as inspect.signature shows it: <<name, kind, has-default>>, kind 1 positional-or-keyword, 2 *args, 3 keyword-only, 4 **kwargs *)
Params(sig) == [i \in 1..Len(sig.pos) |-> <<sig.pos[i], 1, HasPosDefault(sig, i)>>]
               \o (IF sig.star THEN << <<100, 2, FALSE>> >> ELSE <<>>)
               \o [i \in 1..Len(sig.kwo) |-> <<sig.kwo[i].n, 3, sig.kwo[i].d>>]
               \o (IF sig.dstar THEN << <<101, 4, FALSE>> >> ELSE <<>>)

(* injected = [n]: that parameter disappears from the wrapper's own signature, every other default stays on its name *)
RemoveAt1(s, i) == SubSeq(s, 1, i - 1) \o SubSeq(s, i + 1, Len(s))
Inject(sig, n) ==
  IF n \in SeqSet(sig.pos) THEN
     LET i == PosIdx(sig, n) IN
     [sig EXCEPT !.pos = RemoveAt1(sig.pos, i), !.ndef = IF HasPosDefault(sig, i) THEN sig.ndef - 1 ELSE sig.ndef]
  ELSE [sig EXCEPT !.kwo = SelectSeq(sig.kwo, LAMBDA e : e.n # n)]
(* expected = [z] (optionally with a default): the wrapper's own signature gains exactly z; every original parameter keeps   *)
(* its kind, its position among the original parameters and its default.  WHERE z goes is not prescribed.                    *)
ExpectOK(sig, wparams, z, hasdef) ==
    LET others == SelectSeq(wparams, LAMBDA p : p[1] # z)
        zs == SelectSeq(wparams, LAMBDA p : p[1] = z) IN
    /\ others = Params(sig)
    /\ Len(zs) = 1 /\ zs[1][3] = hasdef /\ zs[1][2] \in {1, 3}
(* one way to satisfy it: positional at the end when that is legal, keyword-only otherwise *)
Expect(sig, z, hasdef) == IF hasdef \/ sig.ndef = 0 THEN [sig EXCEPT !.pos = Append(@, z), !.ndef = IF hasdef THEN @ + 1 ELSE @]
                          ELSE [sig EXCEPT !.kwo = Append(@, [n |-> z, d |-> FALSE])]
(* positional parameters whose default cannot stay if a required positional parameter is removed before them: none - Python    *)
(* only needs defaults to be trailing, and removing a parameter keeps them trailing                                            *)
=============================================================================
