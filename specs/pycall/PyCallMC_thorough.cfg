SPECIFICATION Spec
CONSTANTS MaxKwo = 2  MaxKwSubset = 3
INVARIANT Laws
INVARIANT Emit
CHECK_DEADLOCK FALSE
