SPECIFICATION Spec
CONSTANTS MaxLen = 6  MaxN = 7  EmitRows = TRUE
INVARIANT Laws
INVARIANT Emit
CHECK_DEADLOCK FALSE
