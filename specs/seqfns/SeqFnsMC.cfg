SPECIFICATION Spec
CONSTANTS MaxLen = 5  MaxN = 6  EmitRows = TRUE
INVARIANT Laws
INVARIANT Emit
CHECK_DEADLOCK FALSE
