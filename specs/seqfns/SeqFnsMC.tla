------------------------------- MODULE SeqFnsMC -------------------------------
(* One state per (function, arguments) row of the bounded domain: TLC evaluates the *)
(* laws on it and prints the row with the reference output for replay on the code.  *)
EXTENDS SeqFns, TLC, Json
CONSTANTS MaxLen, MaxN, EmitRows
VARIABLES f, s, n, fill, sep, ms, kf
vars == <<f, s, n, fill, sep, ms, kf>>
RECURSIVE Seqs(_)
Seqs(k) == IF k = 0 THEN {<<>>} ELSE LET t == Seqs(k - 1) IN t \cup {Append(x, u) : x \in {y \in t : Len(y) = k - 1}, u \in 0..2}
S == Seqs(MaxLen)
(* sep: 0 = None (element 0 stands for None, grouping), 1 = the value 0, 2 = the set {0,1}, 3 = a predicate (x = 0) *)
Seps(x) == IF x = 2 THEN {0, 1} ELSE {0}
Z == n = 0 /\ fill = 0 /\ sep = 0 /\ ms = 0 /\ kf = 0
Init ==
  \/ /\ f \in {"chunked", "windowed"} /\ s \in S /\ n \in 1..MaxN /\ fill \in {-1, 7} /\ sep = 0 /\ ms = 0 /\ kf = 0
  \/ /\ f = "split" /\ s \in S /\ sep \in 0..3 /\ ms \in {-1, 0, 1, 2, 5} /\ n = 0 /\ fill = 0 /\ kf = 0
  \/ /\ f \in {"lstrip", "rstrip", "strip"} /\ s \in S /\ Z
  \/ /\ f \in {"unique", "redundant", "redundant_groups", "bucketize"} /\ s \in S /\ kf \in 0..2 /\ n = 0 /\ fill = 0 /\ sep = 0 /\ ms = 0
  \/ /\ f = "partition" /\ s \in S /\ kf \in 0..1 /\ n = 0 /\ fill = 0 /\ sep = 0 /\ ms = 0
  \/ /\ f = "chunk_ranges" /\ \E size \in 0..9, chunk \in 1..5, offset \in 0..6, overlap \in 0..4 : overlap < chunk /\ s = <<size, chunk, offset, overlap>>
      /\ n \in 0..1 /\ fill = 0 /\ sep = 0 /\ ms = 0 /\ kf = 0
Next == UNCHANGED vars
Spec == Init /\ [][Next]_vars
Out == CASE f = "chunked" -> Chunked(s, n, fill)
         [] f = "windowed" -> Windowed(s, n, fill)
         [] f = "split" -> Split(s, Seps(sep), sep = 0, ms)
         [] f = "lstrip" -> LStrip(s, 0) [] f = "rstrip" -> RStrip(s, 0) [] f = "strip" -> Strip(s, 0)
         [] f = "unique" -> Unique(s, kf) [] f = "redundant" -> Redundant(s, kf) [] f = "redundant_groups" -> RedundantGroups(s, kf)
         [] f = "bucketize" -> Buckets(s, kf) [] f = "partition" -> Partition(s, kf)
         [] f = "chunk_ranges" -> ChunkRanges(s[1], s[2], s[3], s[4], n = 1)
row == [f |-> f, s |-> s, n |-> n, fill |-> fill, sep |-> sep, ms |-> ms, kf |-> kf, out |-> Out]
Laws == CASE row.f = "chunked" -> LawChunked(row.s, row.n, row.fill)
          [] row.f = "windowed" -> LawWindowed(row.s, row.n, row.fill)
          [] row.f = "unique" -> LawUnique(row.s, row.kf)
          [] row.f = "redundant" -> LawRedundant(row.s, row.kf)
          [] row.f = "bucketize" -> LawBuckets(row.s, row.kf)
          [] row.f = "chunk_ranges" -> LawRanges(row.s[1], row.s[2], row.s[3], row.s[4], row.n = 1)
          [] row.f = "split" -> (row.sep # 0 => Len(row.out) >= 1) /\ (row.ms >= 0 => Len(row.out) <= row.ms + 1)
          [] row.f = "strip" -> (row.out = <<>> \/ (Head(row.out) # 0 /\ Last(row.out) # 0))
          [] OTHER -> TRUE
Emit == EmitRows => PrintT(<<"T", ToJson(row)>>)
=============================================================================
