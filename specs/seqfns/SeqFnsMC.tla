------------------------------- MODULE SeqFnsMC -------------------------------
(* One state per (function, arguments) row of the bounded domain: TLC evaluates the *)
(* laws on it and prints the row with the reference output for replay on the code.  *)
EXTENDS SeqFns, TLC, Json
CONSTANTS MaxLen, MaxN, EmitRows
VARIABLE row
RECURSIVE Seqs(_)
Seqs(n) == IF n = 0 THEN {<<>>} ELSE LET s == Seqs(n - 1) IN s \cup {Append(x, u) : x \in {y \in s : Len(y) = n - 1}, u \in 0..2}
S == Seqs(MaxLen)
R(f, s, n, fill, sep, ms, kf, out) == [f |-> f, s |-> s, n |-> n, fill |-> fill, sep |-> sep, ms |-> ms, kf |-> kf, out |-> out]
(* sep: 0 = None (element 0 stands for None, grouping), 1 = the value 0, 2 = the set {0,1}, 3 = a predicate (x = 0) *)
Seps(sep) == IF sep = 2 THEN {0, 1} ELSE {0}
Rows ==
       {R("chunked", s, n, fill, 0, 0, 0, Chunked(s, n, fill)) : s \in S, n \in 1..MaxN, fill \in {-1, 7}}
  \cup {R("windowed", s, n, fill, 0, 0, 0, Windowed(s, n, fill)) : s \in S, n \in 1..MaxN, fill \in {-1, 7}}
  \cup {R("split", s, 0, 0, sep, ms, 0, Split(s, Seps(sep), sep = 0, ms)) : s \in S, sep \in 0..3, ms \in {-1, 0, 1, 2, 5}}
  \cup {R("lstrip", s, 0, 0, 0, 0, 0, LStrip(s, 0)) : s \in S}
  \cup {R("rstrip", s, 0, 0, 0, 0, 0, RStrip(s, 0)) : s \in S}
  \cup {R("strip", s, 0, 0, 0, 0, 0, Strip(s, 0)) : s \in S}
  \cup {R("unique", s, 0, 0, 0, 0, kf, Unique(s, kf)) : s \in S, kf \in 0..2}
  \cup {R("redundant", s, 0, 0, 0, 0, kf, Redundant(s, kf)) : s \in S, kf \in 0..2}
  \cup {R("redundant_groups", s, 0, 0, 0, 0, kf, RedundantGroups(s, kf)) : s \in S, kf \in 0..2}
  \cup {R("bucketize", s, 0, 0, 0, 0, kf, Buckets(s, kf)) : s \in S, kf \in 0..2}
  \cup {R("partition", s, 0, 0, 0, 0, kf, Partition(s, kf)) : s \in S, kf \in 0..1}
  \cup {R("chunk_ranges", <<size, chunk, offset, overlap>>, IF align THEN 1 ELSE 0, 0, 0, 0, 0, ChunkRanges(size, chunk, offset, overlap, align)) :
            size \in 0..9, chunk \in 1..5, offset \in 0..6, overlap \in 0..4, align \in BOOLEAN} 
Init == row \in {r \in Rows : r.f # "chunk_ranges" \/ r.s[4] < r.s[2]}
Next == UNCHANGED row
Spec == Init /\ [][Next]_row
Laws == CASE row.f = "chunked" -> LawChunked(row.s, row.n, row.fill)
          [] row.f = "windowed" -> LawWindowed(row.s, row.n, row.fill)
          [] row.f = "unique" -> LawUnique(row.s, row.kf)
          [] row.f = "redundant" -> LawRedundant(row.s, row.kf)
          [] row.f = "bucketize" -> LawBuckets(row.s, row.kf)
          [] row.f = "chunk_ranges" -> LawRanges(row.s[1], row.s[2], row.s[3], row.s[4], row.n = 1)
          [] row.f = "split" -> (row.sep # 0 => Len(row.out) >= 1) /\ (row.ms >= 0 => Len(row.out) <= row.ms + 1)
          [] row.f = "strip" -> (row.out = <<>> \/ (Head(row.out) # 0 /\ Last(row.out) # 0))
          [] OTHER -> TRUE
Emit == EmitRows => PrintT(<<"T", ToJson(row)>>)
=============================================================================
