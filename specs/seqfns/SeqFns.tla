-------------------------------- MODULE SeqFns --------------------------------
(***************************************************************************)
(* Reference definitions of the iterutils sequence helpers (C09):          *)
(* chunked, windowed/pairwise, split/strip (str.split / str.strip          *)
(* semantics on the corresponding character string), unique, redundant,    *)
(* bucketize/partition, chunk_ranges - and the laws the property states.   *)
(* Elements are integers; -1 = "argument not given / None".                *)
(***************************************************************************)
EXTENDS Naturals, Integers, Sequences, FiniteSets, SequencesExt

MinI(a, b) == IF a < b THEN a ELSE b
Sub(s, a, b) == SubSeq(s, a, b)           \* 1-based inclusive
RECURSIVE Cat(_)
Cat(ss) == IF ss = <<>> THEN <<>> ELSE Head(ss) \o Cat(Tail(ss))
Pad(s, n, f) == s \o [i \in 1..(n - Len(s)) |-> f]

(* ---- chunked(src, size, fill) ---- *)
NChunks(s, n) == (Len(s) + n - 1) \div n
Chunked(s, n, fill) ==
    [i \in 1..NChunks(s, n) |->
        LET c == Sub(s, (i - 1) * n + 1, MinI(i * n, Len(s))) IN
        IF fill # -1 THEN Pad(c, n, fill) ELSE c]

(* ---- windowed(src, size, fill): contiguous slices; with fill one (padded) window per element ---- *)
Windowed(s, n, fill) ==
    IF fill = -1 THEN [i \in 1..(IF Len(s) >= n THEN Len(s) - n + 1 ELSE 0) |-> Sub(s, i, i + n - 1)]
    ELSE [i \in 1..Len(s) |-> Pad(Sub(s, i, MinI(i + n - 1, Len(s))), n, fill)]

(* ---- split: str.split semantics. seps: set of separator elements; grouping = (sep is None) ---- *)
FirstSep(s, seps) == LET I == {i \in 1..Len(s) : s[i] \in seps} IN
                     IF I = {} THEN 0 ELSE CHOOSE i \in I : \A j \in I : i <= j
RECURSIVE LStripSet(_, _)
LStripSet(s, seps) == IF s # <<>> /\ Head(s) \in seps THEN LStripSet(Tail(s), seps) ELSE s
RECURSIVE SplitPlain(_, _, _)
SplitPlain(s, seps, ms) ==          \* ms = -1: unlimited
    LET i == FirstSep(s, seps) IN
    IF i = 0 \/ ms = 0 THEN <<s>>
    ELSE <<Sub(s, 1, i - 1)>> \o SplitPlain(Sub(s, i + 1, Len(s)), seps, IF ms > 0 THEN ms - 1 ELSE -1)
RECURSIVE SplitGroup(_, _, _)
SplitGroup(s, seps, ms) ==          \* sep=None: runs of separators count once, none at the ends
    LET t == LStripSet(s, seps)  i == FirstSep(t, seps) IN
    IF t = <<>> THEN <<>>
    ELSE IF i = 0 \/ ms = 0 THEN <<t>>
    ELSE <<Sub(t, 1, i - 1)>> \o SplitGroup(Sub(t, i + 1, Len(t)), seps, IF ms > 0 THEN ms - 1 ELSE -1)
Split(s, seps, grouping, ms) == IF grouping THEN SplitGroup(s, seps, ms) ELSE SplitPlain(s, seps, ms)

(* ---- strip family ---- *)
LStrip(s, v) == LStripSet(s, {v})
Rev(s) == [i \in 1..Len(s) |-> s[Len(s) + 1 - i]]
RStrip(s, v) == Rev(LStrip(Rev(s), v))
Strip(s, v) == RStrip(LStrip(s, v), v)

(* ---- keys: 0 identity, 1 parity, 2 constant ---- *)
KeyOf(kf, x) == IF kf = 0 THEN x ELSE IF kf = 1 THEN x % 2 ELSE 0
FirstIdx(s, kf, k) == CHOOSE i \in 1..Len(s) : KeyOf(kf, s[i]) = k /\ \A j \in 1..(i - 1) : KeyOf(kf, s[j]) # k
Unique(s, kf) == LET keep == {i \in 1..Len(s) : \A j \in 1..(i - 1) : KeyOf(kf, s[j]) # KeyOf(kf, s[i])}
                     ks == SetToSortSeq(keep, <)
                 IN [m \in 1..Len(ks) |-> s[ks[m]]]
(* positions that are the SECOND occurrence of their key, in order *)
SecondIdx(s, kf) == SetToSortSeq({i \in 1..Len(s) : Cardinality({j \in 1..(i - 1) : KeyOf(kf, s[j]) = KeyOf(kf, s[i])}) = 1}, <)
Redundant(s, kf) == LET si == SecondIdx(s, kf) IN [m \in 1..Len(si) |-> s[si[m]]]
RedundantGroups(s, kf) == LET si == SecondIdx(s, kf) IN
    [m \in 1..Len(si) |-> SelectSeq(s, LAMBDA x : KeyOf(kf, x) = KeyOf(kf, s[si[m]]))]
(* bucketize: keys in first-appearance order, each with its elements in input order *)
Buckets(s, kf) == LET ks == Unique([i \in 1..Len(s) |-> KeyOf(kf, s[i])], 0) IN
    [m \in 1..Len(ks) |-> <<ks[m], SelectSeq(s, LAMBDA x : KeyOf(kf, x) = ks[m])>>]
(* partition(src, key): truthy first, falsy second *)
Partition(s, kf) == <<SelectSeq(s, LAMBDA x : KeyOf(kf, x) # 0), SelectSeq(s, LAMBDA x : KeyOf(kf, x) = 0)>>

(* ---- chunk_ranges(input_size, chunk_size, input_offset, overlap_size, align) ---- *)
RECURSIVE RangesFrom(_, _, _, _)
RangesFrom(start, stop, chunk, step) ==
    IF start >= stop THEN <<>>
    ELSE IF start + chunk >= stop THEN << <<start, stop>> >>
    ELSE << <<start, start + chunk>> >> \o RangesFrom(start + step, stop, chunk, step)
ChunkRanges(size, chunk, offset, overlap, align) ==
    LET stop == offset + size  step == chunk - overlap
        first == chunk - (offset % step) IN
    IF align /\ first # overlap
    THEN << <<offset, MinI(offset + first, stop)>> >> \o
         (IF offset + first >= stop THEN <<>> ELSE RangesFrom(offset + first - overlap, stop, chunk, step))
    ELSE RangesFrom(offset, stop, chunk, step)

(* ---------------- the laws of the property ---------------- *)
LawChunked(s, n, fill) == LET c == Chunked(s, n, fill) IN
    /\ (fill = -1 => Cat(c) = s) /\ (fill # -1 => Sub(Cat(c), 1, Len(s)) = s /\ \A i \in 1..Len(c) : Len(c[i]) = n)
    /\ \A i \in 1..(Len(c) - 1) : Len(c[i]) = n
    /\ (c # <<>> => Len(c[Len(c)]) \in 1..n)
LawWindowed(s, n, fill) == LET w == Windowed(s, n, fill) IN
    /\ \A i \in 1..Len(w) : Len(w[i]) = n
    /\ (fill = -1 => Len(w) = (IF Len(s) >= n THEN Len(s) - n + 1 ELSE 0) /\ \A i \in 1..Len(w) : w[i] = Sub(s, i, i + n - 1))
    /\ (fill # -1 => Len(w) = Len(s))
LawUnique(s, kf) == LET u == Unique(s, kf) IN
    /\ \A i, j \in 1..Len(u) : i # j => KeyOf(kf, u[i]) # KeyOf(kf, u[j])
    /\ {KeyOf(kf, u[i]) : i \in 1..Len(u)} = {KeyOf(kf, s[i]) : i \in 1..Len(s)}
LawRedundant(s, kf) == {KeyOf(kf, Redundant(s, kf)[i]) : i \in 1..Len(Redundant(s, kf))} =
    {k \in {KeyOf(kf, s[i]) : i \in 1..Len(s)} : Cardinality({i \in 1..Len(s) : KeyOf(kf, s[i]) = k}) > 1}
LawBuckets(s, kf) == LET b == Buckets(s, kf) IN
    /\ FoldSeq(LAMBDA x, acc : acc + Len(x[2]), 0, b) = Len(s)
    /\ \A i \in 1..Len(b) : \A j \in 1..Len(b[i][2]) : KeyOf(kf, b[i][2][j]) = b[i][1]
LawRanges(size, chunk, offset, overlap, align) == LET r == ChunkRanges(size, chunk, offset, overlap, align) IN
    /\ \A i \in 1..Len(r) : r[i][2] - r[i][1] <= chunk /\ (size > 0 => r[i][1] < r[i][2])
    /\ (size > 0 => r # <<>> /\ r[1][1] = offset /\ r[Len(r)][2] = offset + size)
    /\ (size = 0 => \A i \in 1..Len(r) : r[i] = <<offset, offset>>)      \* nothing to cover: no range, or an empty one
    (* every index is covered *)
    /\ \A x \in offset..(offset + size - 1) : \E i \in 1..Len(r) : r[i][1] <= x /\ x < r[i][2]
    /\ \A i \in 2..Len(r) : r[i][1] = r[i - 1][2] - overlap
    /\ (align => \A i \in 2..Len(r) : r[i][1] % (chunk - overlap) = 0)
=============================================================================
